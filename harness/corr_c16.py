"""C16 — --stop-on-error stops after the first failing test but still cleans up."""
from harness import corr_world as cw
from harness import truth
from harness import worlds

PROP = "C16"
LEAN_MODULE = "Ztr.Props.C16Run"
LEAN_DEPS = ["Ztr.Props.C16"]
THEOREMS = ["Ztr.Runner.C16_stops_and_cleans_up", 'Ztr.Result.C16_stop_set', 'Ztr.Result.C16_stop_mono', 'Ztr.Result.C16_no_test_after', 'Ztr.Result.C16_prefix', 'Ztr.Runner.C16_no_layer_after', 'Ztr.Runner.C16_no_child_after', 'Ztr.Runner.C16_iterations']
RULE = ("worlds run with -x: the first bad outcome (failure, error, unexpected success, failing subtest, error in "
        "setUp/tearDown/cleanup, layer setUp failure) at the first/middle/last test of the first/middle/last layer, "
        "with --repeat 1..3, --shuffle-seed, and layers that cannot be torn down (sequential resume in children). "
        "Non-trivial = the bad outcome is not in the last test of the run; distinct by (world, options)")
ASSUMPTIONS = ["with -j N (N > 1) layers are started concurrently: only the per-process clause is claimed there"]
TRUSTED = ["CPython unittest 3.12.1 callback protocol (Model/Proto)"]
KINDS = ("lsu", "ltd", "tstart", "tend")


def monitor_with_ops(ctx):
    def monitor(c):
        w = c.world
        ops = cw.test_ops(ctx, w)
        tests = {t["id"]: t for t in w["tests"]}
        parent, children = cw.real_processes(c)
        sequential = c.opts.get("processes", 1) == 1
        any_bad = False
        procs = [("parent", None, parent)] + [("child %r" % (k,), k, v) for k, v in sorted(children.items(), key=lambda kv: kv[0][1])]
        bad_child_number = None
        for pname, key, evs in procs:
            bad_at = None
            cur = None
            for i, e in enumerate(evs):
                if e[0] == "tstart":
                    if bad_at is not None:
                        return ("%s: test t%d starts after a failure/error was recorded (event %d)" % (pname, e[1], bad_at),
                                "C16:test-after")
                    cur = truth.Window(e[1])
                elif e[0] == "ph" and cur is not None:
                    cur.phases.append(e[2])
                elif e[0] == "tend" and cur is not None:
                    cur.complete = True
                    if truth.window_counts(cur, ops, tests)["bad"] and bad_at is None:
                        bad_at = i
                    cur = None
                elif e[0] == "lsu":
                    if bad_at is not None and sequential:
                        return ("%s: layer %d is set up after a failure/error was recorded" % (pname, e[1]), "C16:layer-after")
                    if not e[2] and bad_at is None:
                        bad_at = i
            if bad_at is not None:
                any_bad = True
                if key is not None and bad_child_number is None:
                    bad_child_number = key[1]
            if sequential and key is not None and bad_child_number is not None and key[1] > bad_child_number:
                return ("child for layer %r started after an earlier child had recorded a failure" % (key,), "C16:child-after")
            if sequential and key is not None and any_bad and pname != "parent" and bad_child_number is None:
                # a bad outcome in the parent before any child was started
                return ("%s was started although the parent had already recorded a failure/error" % pname, "C16:child-after")
            # clean-up: every visible layer that was set up gets its tearDown
            vis = {i for i, l in enumerate(w["layers"]) if l["setUp"] and l["tearDown"]}
            active = []
            for e in evs:
                if e[0] == "lsu" and e[2] and e[1] in vis:
                    active.append(e[1])
                if e[0] == "ltd" and e[1] in active:
                    active.remove(e[1])
            if active:
                return ("%s: layers %r were not torn down" % (pname, active), "C16:cleanup")
        crash = cw.runner_crash(c)
        if crash:
            return ("the runner itself raised instead of ending the run: %s" % crash, "C16:abort")
        parsed_ = worlds.parse_output(c.obs.stdout)
        if len(parsed_["headers"]) >= 2 and parsed_["total"] is None:
            return ("%d layers were run but no 'Total:' line was printed" % len(parsed_["headers"]), "C16:summary")
        if any_bad and c.obs.exit != 1:
            return ("a failure/error was recorded but the exit status is %r" % c.obs.exit, "C16:verdict")
        if any_bad and "Ran " not in c.obs.stdout and parsed_["total"] is None:
            first_lsu = next((e for e in parent if e[0] == "lsu"), None)
            if first_lsu is not None and not first_lsu[2] and not any(e[0] == "tstart" for e in parent) and not children:
                # KNOWN-FINDING D40: the only layer entered could not be set up - neither its "Ran" line nor "Total:"
                return ("no summary at all: the first layer's setUp failed, so no 'Ran ...' line, and 'Total:' is only "
                        "printed when more than one layer was entered", "known:D40-no-summary-first-layer-setup")
            return ("no summary printed", "C16:summary")
        return None
    return monitor


BAD_KINDS = ["fail", "error", "uxsuccess", "subFail", "subFail2", "errTearDown", "errSetUp", "errCleanup", "bodyAndTearDown",
             # a bad outcome followed, in the same test, by an outcome that is none (a skip in a later sub-test, in
             # tearDown, in a clean-up): the failure has been recorded all the same
             "subFailThenSkip", "failThenSkipTearDown", "errThenSkipCleanup", "subSkipThenFail"]


def gen_cases(ctx):
    rng = ctx.rng
    n = 80 if ctx.quick() else 2000
    cases = []
    for i in range(n):
        w = worlds.gen_world(rng, tests_per_layer=(1, 4), kinds=["pass"], p_fault=0.0, p_write=0.0)
        # place the bad outcomes
        if w["tests"]:
            for _ in range(rng.choice([1, 1, 2])):
                t = rng.choice(w["tests"])
                nt = worlds.gen_test(rng, t["id"], [1000], kind=rng.choice(BAD_KINDS), p_write=0.0)
                nt["layer"], nt["module"] = t["layer"], t["module"]
                w["tests"][w["tests"].index(t)] = nt
        if rng.random() < 0.15:
            cand = [l for l in w["layers"] if l["kind"] != "unit" and l["setUp"]]
            if cand:
                rng.choice(cand)["setUpRaises"] = [0]
        elif i % 4 == 1:
            # the first bad outcome is the set-up failure of a layer whose bases were set up on the way to it (and
            # have to be torn down all the same)
            cand = [l for l in w["layers"] if l["kind"] != "unit" and l["bases"]]
            if cand:
                l_ = rng.choice(cand)
                l_["setUp"] = True
                l_["setUpRaises"] = [0]
                for b_ in worlds.closure(w["layers"], w["layers"].index(l_)):
                    if w["layers"][b_]["kind"] != "unit" and w["layers"][b_] is not l_:
                        w["layers"][b_]["setUp"] = w["layers"][b_]["tearDown"] = True
                        w["layers"][b_]["setUpRaises"] = []
        if i % 4 == 3:
            # among the layers left over when the run stops, one whose tearDown raises (an ordinary exception) with its
            # base layers still waiting behind it: they are torn down all the same
            cand = [l for l in w["layers"] if l["kind"] != "unit" and l["bases"]]
            for l_ in cand:
                l_["setUp"] = l_["tearDown"] = True
                l_["tearDownFaults"] = [[999999, 1]]
                for b_ in worlds.closure(w["layers"], w["layers"].index(l_)):
                    if w["layers"][b_]["kind"] != "unit" and w["layers"][b_] is not l_:
                        w["layers"][b_]["setUp"] = w["layers"][b_]["tearDown"] = True
                        w["layers"][b_]["setUpRaises"] = []
        elif rng.random() < 0.3:
            for l in w["layers"]:
                if l["kind"] != "unit" and l["tearDown"] and rng.random() < 0.5:
                    l["tearDownFaults"] = [[0, 2]]
        o = worlds.gen_opts(rng, allow=("repeat", "shuffle", "buffer"))
        o["stopOnError"] = True
        if i % 5 == 2:
            # -j N: the layers run side by side, each in its own process; a slow layer is still running when another one
            # records the first failure - whatever it has set up is torn down all the same
            o["processes"] = rng.choice([2, 3])
            slow = [t for t in w["tests"] if t["kind"] == "pass" and not t.get("doctest")]
            if slow:
                rng.choice(slow)["setUp"]["sleep"] = 1.5
        if i % 4 == 0:
            # directed: independent layers, the first cannot be torn down, a later one (run in a child) fails
            w = worlds.gen_world(rng, n_layers=rng.choice([3, 4]), tests_per_layer=(1, 3), kinds=["pass"], p_fault=0.0,
                                 p_write=0.0)
            non_unit = [k for k, l in enumerate(w["layers"]) if l["kind"] != "unit"]
            for k in non_unit:
                w["layers"][k]["bases"] = []
                w["layers"][k]["setUp"] = w["layers"][k]["tearDown"] = True
            w["tests"] = [t for t in w["tests"] if w["layers"][t["layer"]]["kind"] != "unit"]
            for m in w["modules"].values():
                m["suites"] = []
            for t in w["tests"]:
                w["modules"][t["module"]]["suites"].append({"t": "leaf", "id": t["id"], "lyr": t["layer"]})
            order = sorted(non_unit, key=lambda k: worlds.layer_name(w, k))
            w["layers"][order[0]]["tearDownFaults"] = [[0, 2]]
            victims = [t for t in w["tests"] if t["layer"] == order[1]]
            if victims:
                t = rng.choice(victims)
                nt = worlds.gen_test(rng, t["id"], [1000], kind=rng.choice(BAD_KINDS), p_write=0.0)
                nt["layer"], nt["module"] = t["layer"], t["module"]
                w["tests"][w["tests"].index(t)] = nt
            o["processes"] = 1
            o["shuffle_seed"] = None
            if i % 8 == 0:
                # the child re-parses the parent's own arguments: -x right after an option written --name=value,
                # in a layer (>= 2 tests, the first bad) that runs in a child
                o["shuffle_seed"] = rng.randint(0, 10 ** 6)
                o["seed_eq_then_x"] = True
                extra_ids = max([x["id"] for x in w["tests"]] + [0]) + 1
                for k2 in range(2):
                    t2 = worlds.gen_test(rng, extra_ids + k2, [2000], kind=rng.choice(["pass", "fail"]), p_write=0.0)
                    t2["layer"], t2["module"] = order[1], next(iter(w["modules"]))
                    w["tests"].append(t2)
                    w["modules"][t2["module"]]["suites"].append({"t": "leaf", "id": t2["id"], "lyr": order[1]})
            if i % 8 == 4:
                # the runner started through a wrapper script; tests in the parent empty sys.argv in place before the
                # remaining layers are handed to subprocesses (which must still run with -x)
                worlds.shape_argv_clobber(rng, w, o)
                w["layers"][order[0]]["tearDownFaults"] = [[0, 2]]
                extra_ids = max([x["id"] for x in w["tests"]] + [0]) + 1
                t2 = worlds.gen_test(rng, extra_ids, [2000], kind="pass", p_write=0.0)
                t2["layer"], t2["module"] = order[1], next(iter(w["modules"]))
                w["tests"].append(t2)
                w["modules"][t2["module"]]["suites"].append({"t": "leaf", "id": t2["id"], "lyr": order[1]})
            cases.append(cw.Case(w, o, "directed-resume"))
            continue
        if rng.random() < 0.15:
            o["processes"] = 2
        o["verbose"] = rng.choice([0, 1, 2])
        cases.append(cw.Case(w, o))
    return cases


def run(ctx):
    cw.standard_check(ctx, cw.corpus_cases(PROP) + gen_cases(ctx), PROP, KINDS, "runner.stop", monitor_with_ops(ctx))


def probe_d40(ctx):
    import os
    import random
    import shutil
    rng = random.Random(40)
    w = worlds.gen_world(rng, n_layers=2, tests_per_layer=(1, 1), kinds=["pass"], p_fault=0.0, p_write=0.0)
    w["tests"] = [t for t in w["tests"] if w["layers"][t["layer"]]["kind"] != "unit"]
    for m in w["modules"].values():
        m["suites"] = []
    for t in w["tests"]:
        w["modules"][t["module"]]["suites"].append({"t": "leaf", "id": t["id"], "lyr": t["layer"]})
    for l in w["layers"]:
        if l["kind"] != "unit":
            l.update(setUp=True, tearDown=True, bases=[], setUpRaises=[999999], tearDownFaults=[])
            l.pop("falsy", None)
    d = os.path.join(ctx.tmp, "probe_d40")
    worlds.materialize(w, d)
    obs = worlds.run_real(w, {"verbose": 1, "stopOnError": True}, d)
    shutil.rmtree(d, ignore_errors=True)
    still = obs.exit == 1 and "Ran " not in obs.stdout and "Total:" not in obs.stdout
    return still, ("-x: when the first layer's setUp fails the run ends (verdict failed, layers torn down) without any "
                   "summary line: no 'Ran ...' (the layer ran no test) and no 'Total:' (printed only when more than one "
                   "layer was entered)")


KNOWN_PROBES = {"D40": probe_d40}


def replay(ctx, obj):
    c = cw.replay_case(obj)
    if c is None:
        return run(ctx)
    cw.standard_check(ctx, [c], PROP, KINDS, "runner.stop", monitor_with_ops(ctx))
