"""C20 — correspondence of Model/Digraph (step machine) with digraph.DiGraph.sccs: the emitted
sequence (component order and inner order) must be identical; monitor = independent SCC oracle."""
import itertools

PROP = "C20"
LEAN_MODULE = "Ztr.Props.C20C"
LEAN_DEPS = ["Ztr.Props.C20", "Ztr.Props.C20B"]
THEOREMS = [
    "Ztr.Digraph.C20_full",
    "Ztr.Digraph.C20_sccs",
    "Ztr.Digraph.C20_default_mode",
    "Ztr.Digraph.C20_halts",
    "Ztr.Digraph.C20_disjoint_partial",
    "Ztr.Digraph.C20_emitted_is_segment",
    "Ztr.Digraph.inv3_step",
]
RULE = ("all digraphs with self-loops on <= 3 nodes (quick) / <= 4 nodes (thorough, 2**16) x node insertion orders, "
        "hashable-int, id()-keyed object nodes and id()-keyed unhashable objects that compare equal by value, edges to unknown nodes, repeated add_neighbors, nodes that never "
        "get add_neighbors; random graphs up to 40 nodes; both trivial modes. Non-trivial = graph has an edge; "
        "distinct by (edges, insertion order, mode)")
ASSUMPTIONS = [
    "hypotheses of C20_full (no node listed twice, neighbours inside the node set) are checked on every real graph object",
    "set iteration orders are read from the real objects (list(g._nodes.copy()), list(neighbour set)) and handed to "
    "the model; removing elements from a set does not reorder the remaining ones (CPython)",
]
TRUSTED = ["CPython set iteration (orders supplied by the harness)"]


class Obj:
    __slots__ = ("k",)

    def __init__(self, k):
        self.k = k


class EqObj:
    """identity-keyed node objects that compare equal by value (and are unhashable): nodes i and i+2 are
    equal but distinct, as value objects caught in a cycle report would be"""
    __slots__ = ("k",)
    __hash__ = None

    def __init__(self, k):
        self.k = k

    def __eq__(self, other):
        return isinstance(other, EqObj) and self.k % 2 == other.k % 2


class EqHashObj:
    """hashable, equal by value: two distinct nodes of an identity-keyed graph may be equal (points, runtime-built
    tuples and strings, big ints) - they stay two nodes"""

    def __init__(self, k):
        self.k = k

    def __eq__(self, other):
        return isinstance(other, EqHashObj) and other.k // 2 == self.k // 2

    def __hash__(self):
        return hash(self.k // 2)

    def __repr__(self):
        return "EqHashObj(%d)" % self.k


def build(n, edges, order, mode, unknown, skip_nb):
    """Real DiGraph.  nodes 0..n-1 inserted in `order`; `edges` set of (a, b);
    mode 'int' (make_hashable=None) or 'id'."""
    from zope.testrunner.digraph import DiGraph
    if mode == "int":
        objs = list(range(n))
        g = DiGraph(make_hashable=None)
        key = lambda o: o  # noqa: E731
    elif mode == "odd":
        # hashable mode with nodes of every hashable kind: None, False/0-like values, the empty tuple and string
        pool = [None, (), "", 0.5, frozenset(), ("a", 1), "node", -1]
        objs = pool[:n] if n <= len(pool) else pool + list(range(100, 100 + n - len(pool)))
        g = DiGraph(make_hashable=None)
        key = lambda o: o  # noqa: E731
    elif mode == "nan":
        # hashable mode with nodes whose equality is not reflexive (float nan): sets and dicts find them by
        # identity, so the algorithm must too
        objs = [float("nan") for _ in range(n)]
        g = DiGraph(make_hashable=None)
        key = id
    elif mode == "eqhash":
        # identity-keyed (default) graph whose nodes are hashable and equal in pairs - instances of a value class, and
        # tuples / strings / big ints built at run time
        mk = [EqHashObj, lambda i: tuple([i // 2, "t"]), lambda i: "s%d" % (i // 2), lambda i: 10 ** 30 + i // 2]
        objs = [mk[(i // 2) % len(mk)](i) for i in range(n)]
        g = DiGraph()
        key = id
    else:
        objs = [(EqObj if mode == "eq" else Obj)(i) for i in range(n)]
        g = DiGraph()
        key = id
    # the collections handed to the graph: every iterable kind (lists, tuples, generators; sets, frozensets and
    # dict views when the nodes are hashable) - chosen per call from the case itself
    kinds = [list, tuple, iter]
    if mode in ("int", "odd"):
        kinds += [set, frozenset, lambda xs: dict.fromkeys(xs).keys(), frozenset, set]
    salt = [n + 3 * len(edges) + sum(order[:2])]

    def coll(xs):
        salt[0] += 1
        return kinds[salt[0] % len(kinds)](xs)
    g.add_nodes(coll([objs[i] for i in order]))
    extra = n + 100 if mode in ("int", "odd") else (float("nan") if mode == "nan" else (
        EqObj(-1) if mode == "eq" else (EqHashObj(-2) if mode == "eqhash" else Obj(-1))))
    for a in order:
        nb = [objs[b] for (x, b) in sorted(edges) if x == a]
        if not nb and a in skip_nb:
            continue            # a node that never gets add_neighbors
        if unknown:
            nb = nb + [extra]
        if len(nb) > 2:
            g.add_neighbors(objs[a], coll(nb[:1]))
            g.add_neighbors(objs[a], coll(nb[1:2]))
            g.add_neighbors(objs[a], coll(nb[2:]))
        elif len(nb) > 1:
            g.add_neighbors(objs[a], coll(nb[:1]))
            g.add_neighbors(objs[a], coll(nb[1:]))
        else:
            g.add_neighbors(objs[a], coll(nb))
    return g, objs, key


def observe(g, objs, key, trivial):
    tr = {key(o): i for i, o in enumerate(objs)}
    # internal node keys: the objects themselves in hashable mode (looked up by identity when their equality is
    # not reflexive), id() numbers otherwise
    internal = (lambda t: tr[id(t)]) if (objs and isinstance(objs[0], float)) else (lambda t: tr[t])
    try:
        order = [internal(t) for t in list(g._nodes.copy())]
        nbrs = [[] for _ in objs]
        for t, ns in g._neighbors.items():
            nbrs[internal(t)] = [internal(x) for x in list(ns)]
    except (KeyError, TypeError, AttributeError):
        # the object's internals are not keyed the way make_hashable says (or are not there at all): the exact emission
        # sequence cannot be asked of the model - a broken correspondence; the components are still judged by the oracle
        order, nbrs = None, None
    try:
        out = []
        for c in g.sccs(trivial):
            out.append([tr[key(o)] for o in c])
        err = None
    except Exception as e:  # noqa: BLE001
        out = None
        err = "%s: %s" % (type(e).__name__, e)
    return order, nbrs, out, err


def oracle(n, edges, trivial):
    reach = [[i == j or (i, j) in edges for j in range(n)] for i in range(n)]
    for k in range(n):
        for i in range(n):
            if reach[i][k]:
                for j in range(n):
                    if reach[k][j]:
                        reach[i][j] = True
    comps = set()
    for i in range(n):
        comps.add(frozenset(j for j in range(n) if reach[i][j] and reach[j][i]))
    if not trivial:
        comps = {c for c in comps if len(c) > 1 or (next(iter(c)),) * 2 in edges}
    return comps


def cases(ctx):
    nmax = 3 if ctx.quick() else 4
    for n in range(0, nmax + 1):
        pairs = [(a, b) for a in range(n) for b in range(n)]
        total = 1 << len(pairs)
        masks = range(total)
        if n == 4 and total > 20000:
            masks = ctx.rng.sample(range(total), 20000) if ctx.tier != "thorough" else range(total)
        for mask in masks:
            edges = frozenset(p for i, p in enumerate(pairs) if mask >> i & 1)
            orders = [list(range(n))]
            if n >= 2:
                o = list(range(n))
                ctx.rng.shuffle(o)
                orders.append(o)
            for order in orders[:1 if (n == 4 or ctx.quick() and n == 3) else 2]:
                mode = ("int", "id", "eq", "nan", "odd", "eqhash")[(mask + n) % 6]
                yield n, edges, order, mode, (mask % 5 == 0), frozenset(range(n)) if mask % 3 == 0 else frozenset()
    for _ in range(200 if ctx.quick() else 4000):
        n = ctx.rng.randint(2, 40)
        dens = ctx.rng.choice([0.03, 0.08, 0.2, 0.5])
        edges = frozenset((a, b) for a in range(n) for b in range(n) if ctx.rng.random() < dens)
        order = list(range(n))
        ctx.rng.shuffle(order)
        yield n, edges, order, ctx.rng.choice(["int", "id", "eq", "nan", "odd", "eqhash"]), ctx.rng.random() < 0.3, \
            frozenset(range(n)) if ctx.rng.random() < 0.4 else frozenset()


def run(ctx):
    todo = []
    queries = []
    keep = []
    for n, edges, order, mode, unknown, skip in cases(ctx):
        for trivial in (False, True):
            g, objs, key = build(n, edges, order, mode, unknown, skip)
            keep.append((g, objs))
            o, nbrs, out, err = observe(g, objs, key, trivial)
            # the enumeration is a function of the graph: a later enumeration of the same object (either mode) gives
            # the components again, and the graph is what it was
            if err is None:
                o2, nbrs2, out2, err2 = observe(g, objs, key, not trivial)
                want2 = oracle(n, edges, not trivial)
                if err2 is not None or o2 != o or nbrs2 != nbrs or {frozenset(c) for c in out2} != want2 or \
                        sum(len(c) for c in out2) != sum(len(c) for c in want2):
                    ctx.violation("after sccs(%r) on nodes=%d edges=%r a second enumeration sccs(%r) of the same graph "
                                  "gives %r (%s), expected components %r; nodes before %r, after %r" % (
                                      trivial, n, sorted(edges), not trivial, out2, err2, sorted(map(sorted, want2)), o, o2),
                                  {"n": n, "edges": sorted(edges), "insert_order": order, "mode": mode, "first": trivial,
                                   "second_result": out2, "error": err2}, signature="second-enumeration")
            todo.append((n, edges, order, mode, unknown, sorted(skip), trivial, o, nbrs, out, err))
            queries.append({"op": "sccs", "order": o, "nbrs": nbrs, "trivial": trivial} if o is not None else {"op": "noop"})
        if len(keep) > 2000:
            keep = []
    answers = ctx.driver.batch(queries)
    for (n, edges, order, mode, unknown, skip, trivial, o, nbrs, out, err), ans in zip(todo, answers):
        case = {"n": n, "edges": sorted(edges), "insert_order": order, "mode": mode, "unknown": unknown,
                "no_add_neighbors": skip, "trivial": trivial, "iter_order": o, "nbrs": nbrs, "real": out,
                "error": err, "model": ans}
        ctx.count((n, tuple(sorted(edges)), tuple(order), mode, trivial), nontrivial=bool(edges),
                  sample={k: case[k] for k in ("n", "edges", "insert_order", "mode", "trivial", "real")})
        ctx.bump("n=%d" % n if n <= 4 else "n>4")
        ctx.bump("mode=" + mode)
        if err is not None:
            ctx.violation("sccs(trivial=%r) raised %s on nodes=%d edges=%r" % (trivial, err, n, sorted(edges)),
                          case, signature="raises:" + err.split(":")[0])
            continue
        want = oracle(n, edges, trivial)
        got = [frozenset(c) for c in out]
        if len(got) != len(set(got)) or set(got) != want or sum(len(c) for c in out) != sum(len(c) for c in want):
            ctx.violation("sccs(trivial=%r) = %r, expected components %r" % (trivial, out, sorted(map(sorted, want))),
                          case, signature="wrong-components")
            continue
        if o is None:
            ctx.drift("digraph.internals", "the graph object's node and neighbour tables are not keyed by make_hashable(node) "
                      "(mode %s): the model cannot be asked for the emission sequence" % mode, case)
            continue
        # the theorems' hypotheses (`order.Nodup`, neighbour lists inside the node set) must hold of the real object
        if len(set(o)) != len(o) or any(m not in set(o) for x in o for m in nbrs[x]) or \
                any(nbrs[x] for x in range(len(nbrs)) if x not in set(o)):
            ctx.drift("digraph.hypotheses", "the real graph object violates the hypotheses of C20_full: nodes %r, "
                      "neighbour lists %r" % (o, nbrs), case)
        elif "error" in ans:
            ctx.drift("digraph", "driver error %s" % ans["error"], case)
        elif not ans["halted"] or ans["out"] != out:
            ctx.drift("digraph.sccs", "model emitted %r (halted=%r), real %r" % (ans["out"], ans["halted"], out), case)


def replay(ctx, obj):
    run(ctx)
