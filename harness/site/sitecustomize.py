# Makes zope.interface / zope.exceptions / zope.testing importable next to the editable
# install of zope.testrunner (whose nspkg .pth pins zope.__path__ to /repo/src/zope).
# Runs in every harness process and in every child the runner spawns (PYTHONPATH is inherited).
import os
import sys
import sysconfig

try:
    import zope
    _pure = os.path.join(sysconfig.get_paths()["purelib"], "zope")
    if os.path.isdir(_pure) and _pure not in list(zope.__path__):
        zope.__path__.append(_pure)
    _src = os.environ.get("ZTR_REPO_SRC")
    if _src:
        _z = os.path.join(_src, "zope")
        if os.path.isdir(_z) and _z not in list(zope.__path__):
            zope.__path__.insert(0, _z)
except Exception:  # pragma: no cover
    pass
