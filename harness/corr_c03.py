"""C03 — exactly the selected tests run, once each, and every mode agrees on them."""
from harness import corr_world as cw
from harness import truth
from harness import worlds

PROP = "C03"
LEAN_MODULE = "Ztr.Props.C03Run"
LEAN_DEPS = ["Ztr.Props.C03", "Ztr.Props.C10Names"]
THEOREMS = ['Ztr.Runner.C03_layers_once', 'Ztr.Runner.C03_child_one_layer', 'Ztr.Result.C03_tests_started',
            'Ztr.Result.C03_all_started', 'Ztr.Runner.C03_iterations_execute', 'Ztr.Runner.C03_parent_tests_not_in_children',
            'Ztr.Runner.C03_child_only_own_layer',
            # every registered (name, tests) group is handed to the layer loop exactly once, also when several names
            # resolve to one layer object (Model/Ordered)
            'Ztr.Ordered.C10N_names_once', 'Ztr.Ordered.C10N_D36_witness']
RULE = ("worlds with several modules, nested suites, layer declarations on leaves or enclosing suites; option vectors "
        "over -t patterns, --layer patterns, -u/-f, --repeat, --shuffle-seed, -j N and layers that cannot be torn "
        "down (later ones resumed in children); every run is preceded by a --list-tests run with the same options. "
        "Non-trivial = >= 2 layers with tests; distinct by (world, options)")
ASSUMPTIONS = ["test code does not start further tests; countTestCases() != 1 only affects counts (C12)"]
TRUSTED = ["CPython unittest 3.12.1 callback protocol (Model/Proto)"]
KINDS = ("tstart", "tend")


def monitor(c):
    w = c.world
    reps = c.opts.get("repeat", 1)
    sel = {li: ts for li, ts in c.groups}
    parent, children = cw.real_processes(c)
    # 1. the listing: same set, per layer, nothing executed
    lst = getattr(c, "listing", None)
    if lst is not None:
        if any(e["ev"] not in ("import", "modimport", "modok", "exit") for e in lst.events):
            return ("--list-tests executed test or layer code: %r" % [e["ev"] for e in lst.events if e["ev"] not in ("import", "modimport", "modok", "exit")][:5],
                    "C03:list-runs")
        lg = cw.listing_groups(w, lst.stdout)
        if sorted((li, tuple(sorted(ts))) for li, ts in lg) != sorted((li, tuple(sorted(ts))) for li, ts in c.groups):
            return ("--list-tests lists %r, selected %r" % (lg, c.groups), "C03:list-set")
    # 2. executed tests
    simple = not c.opts.get("stopOnError") and not any(l["setUpRaises"] for l in w["layers"])
    counts = {}
    where = {}
    order = {}
    for pname, evs in [("parent", parent)] + [(k, v) for k, v in children.items()]:
        for win in truth.windows(evs):
            counts[win.tid] = counts.get(win.tid, 0) + 1
            where.setdefault(win.tid, set()).add(str(pname))
            li = next(t["layer"] for t in w["tests"] if t["id"] == win.tid)
            order.setdefault((str(pname), li), []).append(win.tid)
    selected_ids = {t for ts in sel.values() for t in ts}
    extra = set(counts) - selected_ids
    if extra:
        return ("tests %r were executed but are not selected" % sorted(extra), "C03:extra")
    multi = [t for t, ps in where.items() if len(ps) > 1]
    if multi:
        return ("tests %r ran in more than one process" % multi, "C03:two-processes")
    if simple:
        wrong = {t: counts.get(t, 0) for t in selected_ids if counts.get(t, 0) != reps}
        if wrong:
            return ("selected tests executed a wrong number of times (expected %d): %r" % (reps, wrong), "C03:count")
    over = {t: n for t, n in counts.items() if n > reps}
    if over:
        return ("tests executed more than --repeat times: %r" % over, "C03:count")
    # 3. execution order inside each layer = listing order (each iteration)
    if lst is not None:
        lg = dict((li, ts) for li, ts in cw.listing_groups(w, lst.stdout))
        for (pname, li), seq in order.items():
            want = lg.get(li, [])
            for k in range(0, len(seq), max(1, len(want))):
                chunk = seq[k:k + len(want)]
                if chunk != want[:len(chunk)]:
                    return ("layer %d executes %r, --list-tests order is %r" % (li, chunk, want), "C03:order")
    return None


def add_levels(rng, w):
    """level declarations at every depth: on enclosing suites (wrapping a module's suites once more), on inner
    suites and on leaves, incl. 0 and levels that go down again below a higher one"""
    def deco(node, depth):
        if rng.random() < 0.4:
            node["lvl"] = rng.choice([0, 1, 2, 2, 3])
        if node["t"] == "node":
            for k in node["kids"]:
                deco(k, depth + 1)
    for m in w["modules"].values():
        if m["suites"] and rng.random() < 0.5:
            m["suites"] = [{"t": "node", "kids": m["suites"], "lyr": None, "lvl": rng.choice([None, 2, 3])}]
        for s_ in m["suites"]:
            deco(s_, 0)


def gen_cases(ctx):
    rng = ctx.rng
    n = 60 if ctx.quick() else 1500
    cases = []
    for i in range(n):
        # (a quarter of the worlds: tests packages, plain directories, directories reachable under two names)
        layout = rng.choice(worlds.LAYOUTS) if rng.random() < 0.25 else None
        w = worlds.gen_world(rng, tests_per_layer=(0, 4) if layout is None else (1, 4),
                             kinds=["pass", "pass", "fail", "skipDeco", "error"],
                             p_fault=0.0, p_write=0.0, nested=rng.random() < 0.4, layout=layout)
        if rng.random() < 0.35:
            for l in w["layers"]:
                if l["kind"] != "unit" and l["tearDown"] and rng.random() < 0.4:
                    l["tearDownFaults"] = [[rng.choice([0, 999999]), 2]]
        if rng.random() < 0.45:
            add_levels(rng, w)
        o = worlds.gen_opts(rng, allow=("repeat", "j", "shuffle"))
        if rng.random() < 0.3:
            o["shuffle_seed"] = rng.randint(0, 10 ** 6)
        o["verbose"] = rng.choice([0, 1, 2])
        lv = rng.random()
        if lv < 0.15:
            o["at_level"] = rng.choice([0, 2, 3])
        elif lv < 0.25:
            o["all"] = True
        elif lv < 0.35:
            o["only_level"] = rng.choice([0, 1, 2, 3])
        elif lv < 0.45:
            # --only-level overrides --all and --at-level
            o["only_level"] = rng.choice([1, 2, 3])
            if rng.random() < 0.5:
                o["all"] = True
            else:
                o["at_level"] = rng.choice([0, -1])
        r = rng.random()
        names = [worlds.layer_name(w, i) for i in range(len(w["layers"]))]
        if r < 0.2:
            o["layer"] = [rng.choice(names).split(".")[-1]]
        elif r < 0.3:
            o["layer"] = ["!" + rng.choice(names).split(".")[-1]]
        elif r < 0.4:
            o["unit"] = True
        elif r < 0.5:
            o["non_unit"] = True
        elif r < 0.65:
            # the unit switches together with --layer patterns - also patterns that the unit layer's own name passes
            # (a broad one, an only-negated list): -f takes the unit tests out whatever --layer says, -u replaces the
            # patterns, -u -f cancel each other
            o["layer"] = rng.choice([["."], ["layer"], ["!" + rng.choice(names).split(".")[-1] + "$"], ["UnitTests"],
                                     [rng.choice(names).split(".")[-1], "zope"], ["!nomatch"]])
            sw = rng.choice(["non_unit", "non_unit", "unit", "both"])
            if sw in ("non_unit", "both"):
                o["non_unit"] = True
            if sw in ("unit", "both"):
                o["unit"] = True
        if rng.random() < 0.3:
            # (--test patterns see str(test), "t5 (tests.T5)" here - not test.id(), "tests.T5.runTest")
            o["test"] = [rng.choice(["t1", "t[02468] ", "!t1", "t3 ", "t", "runTest", "!^t\\d", "^(pa|pb|tests)", "!runTest$"])]
        elif rng.random() < 0.4:
            # several patterns of one kind whose meaning depends on being compiled separately
            o["test"] = rng.choice([["(?i)T1 ", "T2 "], ["(?i)T0 ", "T3 ", "T4 "], ["!(?i)T1 ", "!T2 "], ["t(?P<a>1) ", "t(?P<a>2) "],
                                    ["t(1) ", "t(.)(?!\\1)\\d "], ["t(0) ", "t(2) ", "t(\\d)\\1 "], ["(?i)T[0-3] ", "T[4-9] "]])
        elif rng.random() < 0.15:
            # the empty pattern is a pattern too: it matches every name
            o["test"] = rng.choice([["t1 ", ""], ["", "t2 "], ["", "!t1 "], [""]])
        if layout is None and not any(m_.get("importError") for m_ in w["modules"].values()) and rng.random() < 0.2:
            # --module patterns - among them ones that are also the name of a directory or file where the run starts
            # (pa, tests): a pattern is a pattern, in the main process and in every layer subprocess
            o["modpat"] = rng.choice([["pa"], ["tests"], ["pb", "pa"], ["^pa\\."], ["!pb"], ["tests", "!pa"], ["."], ["wrt"]])
            if rng.random() < 0.6:
                o["processes"] = rng.choice([2, 3])
        elif "pa.tests" in w["modules"] and layout is None and rng.random() < 0.4:
            # a directory under the search path that is also mapped into its package (--package-path): its files are
            # reached twice and loaded once
            o["pkgpath"] = "pa"
        if rng.random() < 0.25:
            # a relative search path, a test (in the first layer run) that leaves the process in another directory,
            # and a layer that cannot be torn down so that the rest is resumed in subprocesses
            o["relpath"] = True
            o["processes"] = 1
            non_unit = sorted([k for k, l in enumerate(w["layers"]) if l["kind"] != "unit"],
                              key=lambda k: worlds.layer_name(w, k))
            if non_unit:
                w["layers"][non_unit[0]]["tearDown"] = True
                w["layers"][non_unit[0]]["tearDownFaults"] = [[999999, 2]]
            for t in w["tests"]:
                if rng.random() < 0.5:
                    t["body"]["chdir"] = True
        cases.append(cw.Case(w, o))
    return cases


def shuffle_modes(ctx, n=None):
    """one world, one --shuffle-seed, every mode: the listing (with and without -j), the sequential run and the
    -j N run must agree on the per-layer order of the tests, on the outcomes per layer and on the verdict"""
    import concurrent.futures
    import os
    import shutil
    rng = ctx.rng
    n = n if n is not None else (6 if ctx.quick() else 100)
    jobs = []
    for i in range(n):
        # (declarations nested in each other: a test class with its own layer inside a suite that declares another one -
        # the nearest declaration wins in every process)
        w = worlds.gen_world(rng, n_layers=rng.choice([2, 3, 4]), tests_per_layer=(2, 5),
                             kinds=["pass", "pass", "pass", "fail", "error", "skipBody"], p_fault=0.0, p_write=0.0,
                             nested=(i % 4 in (0, 1)))
        if i % 3 == 1:
            # at least two unit tests, and a layer whose dotted name sorts after the unit layer's (the shuffle draws
            # one stream over the layers in name order)
            for _ in range(30):
                unit = [k for k, l in enumerate(w["layers"]) if l["kind"] == "unit"]
                if unit and sum(1 for t in w["tests"] if t["layer"] == unit[0]) >= 2:
                    break
                w = worlds.gen_world(rng, n_layers=rng.choice([2, 3, 4]), tests_per_layer=(2, 5),
                                     kinds=["pass", "pass", "pass", "fail", "error", "skipBody"], p_fault=0.0, p_write=0.0)
            non_unit = [l for l in w["layers"] if l["kind"] != "unit"]
            if non_unit:
                non_unit[-1]["module"] = "zzl"
        if i % 4 == 1:
            # instance layers named by strings with dots and regex metacharacters: a layer subprocess runs the layer it
            # was started for, not every layer its name matches as a pattern
            inst = [l for l in w["layers"] if l["kind"] == "instance"]
            for l, nm in zip(inst, ["Q+", "B(h)", "X.Y", "X_Y", "X-Y"]):
                l["name"] = nm
            if not inst:
                # (no instance layer in this world: make the last class layer without derived layers one)
                used_as_base = {b for l in w["layers"] for b in l["bases"]}
                for k_ in range(len(w["layers"]) - 1, 0, -1):
                    if w["layers"][k_]["kind"] == "class" and k_ not in used_as_base:
                        w["layers"][k_]["kind"] = "instance"
                        w["layers"][k_]["name"] = "Q+"
                        break
        if i % 3 == 0:
            # a layer with a failure *and* an error: the child's report lists both, in that order
            kinds_ = ["fail", "error", "pass", "error", "fail"]
            by_layer = {}
            for t in w["tests"]:
                by_layer.setdefault(t["layer"], []).append(t)
            for li, ts in by_layer.items():
                if w["layers"][li]["kind"] != "unit" and len(ts) >= 2:
                    for k_, t in enumerate(ts):
                        fresh = worlds.gen_test(rng, t["id"], [10 ** 6 + 100 * t["id"]], kind=kinds_[k_ % len(kinds_)], p_write=0.0)
                        for key in ("layer", "module"):
                            fresh[key] = t[key]
                        for key in ("rebind", "ownstream", "label"):
                            fresh.pop(key, None)
                        t.clear()
                        t.update(fresh)
                    break
        if i % 2 == 1:
            # a process that writes to its real stderr while it shuts down (after a layer subprocess's report)
            t_ = rng.choice(w["tests"]) if w["tests"] else None
            if t_ is not None and not t_.get("doctest"):
                t_["setUp"]["atexit_fd2"] = rng.choice(["fixture-server: stopped\n", "bye\n", "2 leaked handles\n"])
        if i % 4 == 3:
            # a layer whose report announces more failures and errors than tests run (one test, two failing sub-tests),
            # and a test that writes a lot to the real stderr of its process (warnings of a C library, a helper's log)
            non_unit = [k for k, l in enumerate(w["layers"]) if l["kind"] != "unit"]
            if non_unit:
                li = rng.choice(non_unit)
                keep = None
                for t in list(w["tests"]):
                    if t["layer"] == li:
                        if keep is None:
                            keep = t
                            fresh = worlds.gen_test(rng, t["id"], [2 * 10 ** 6 + 100 * t["id"]], kind="subFail2", p_write=0.0)
                            for key in ("layer", "module"):
                                fresh[key] = t[key]
                            for key in ("rebind", "ownstream", "label", "doctest"):
                                fresh.pop(key, None)
                            t.clear()
                            t.update(fresh)
                        else:
                            w["tests"].remove(t)
                dead = {t["id"] for t in w["tests"]}

                def prune(nodes):
                    out = []
                    for n_ in nodes:
                        if n_["t"] == "leaf":
                            if n_["id"] in dead:
                                out.append(n_)
                        else:
                            n_["kids"] = prune(n_["kids"])
                            out.append(n_)
                    return out
                for m_ in w["modules"].values():
                    m_["suites"] = prune(m_["suites"])
            loud = [t for t in w["tests"] if not t.get("doctest")]
            if loud:
                rng.choice(loud)["body"]["fd2"] = ("library warning: something is deprecated " + "x" * 60 + "\n") * 3000
        seed = rng.randint(0, 10 ** 6) if i % 4 != 0 else None      # (every fourth world runs unshuffled)
        wo = {}
        if i % 4 == 2:
            # started through a wrapper script (options from sys.argv); tests that empty sys.argv in place run in the
            # main process before the other layers are resumed in subprocesses - which must shuffle like the parent
            worlds.shape_argv_clobber(rng, w, wo)
            wo.pop("processes", None)
        if i % 4 == 0:
            # the layers that come first take longest: their subprocesses finish last
            order_ = sorted([k for k, l in enumerate(w["layers"]) if l["kind"] != "unit"], key=lambda k: worlds.layer_name(w, k))
            for rank, k in enumerate(order_[:-1]):
                ts_ = [t for t in w["tests"] if t["layer"] == k and not t.get("doctest")]
                if ts_:
                    ts_[0]["setUp"]["sleep"] = 0.6 * (len(order_) - rank)
        if i % 4 == 2 or i % 5 == 3:
            # levels declared on suites at every depth, selected with --only-level / --at-level: the shuffle keeps every
            # selected test
            add_levels(rng, w)
            wo.update(rng.choice([{"only_level": 2}, {"at_level": 2}, {"only_level": 3}, {"all": True}]))
        if i % 4 == 1:
            # every iteration's failures and errors count and are listed - by the main process and by the layer
            # subprocesses alike (a test that fails in both iterations is named twice)
            wo["repeat"] = 2
        jobs.append((i, w, seed, rng.choice([2, 3, 4]), rng.randint(0, 10 ** 6), wo))

    def one(job):
        i, w, seed, j, argseed, wo = job
        d = os.path.join(ctx.tmp, "sm%05d" % i)
        worlds.materialize(w, d)
        base = dict(wo, verbose=1, shuffle_seed=seed, argseed=argseed, _timeout=90)
        # (every process with another hash seed - the layer subprocesses of the -j run each with a random one: the order
        # for a seed is the same in every process of every run)
        hs = lambda v: {"_env": {"PYTHONHASHSEED": v}}  # noqa: E731
        res = {
            "list1": worlds.run_real(w, dict(base, list=True, **hs("1")), d),
            "listj": worlds.run_real(w, dict(base, list=True, processes=j, **hs("2")), d),
            "seq": worlds.run_real(w, dict(base, **hs("3")), d),
            "par": worlds.run_real(w, dict(base, processes=j, **hs("random")), d),
            # the same seed with the unit tests filtered out: the order inside the other layers must not change
            "listf": worlds.run_real(w, dict(base, list=True, non_unit=True), d),
            # without --shuffle: the same tests per layer (the shuffle permutes, it never drops or adds a test)
            "list0": worlds.run_real(w, dict({k_: v_ for k_, v_ in base.items() if k_ != "shuffle_seed"}, list=True), d),
        }
        shutil.rmtree(d, ignore_errors=True)
        return res
    with concurrent.futures.ThreadPoolExecutor(max_workers=6) as ex:
        results = list(ex.map(one, jobs))
    for (i, w, seed, j, argseed, wo), res in zip(jobs, results):
        case = {"world": w, "seed": seed, "processes": j, "argseed": argseed, "opts": wo}
        ctx.count(("shuffle-modes", str(w)[:500], seed, j), nontrivial=True, sample=None)
        ctx.bump("shuffle-modes")
        tests = {t["id"]: t for t in w["tests"]}

        def per_layer(obs):
            out = {}
            for pid, pr in obs.procs.items():
                for e in pr["events"]:
                    if e.get("ev") == "tstart":
                        out.setdefault(tests[e["t"]]["layer"], []).append(e["t"])
            return out
        # (under -j the parent lists its injected empty first layer: a group without tests)
        l1 = {k: v for k, v in cw.listing_groups(w, res["list1"].stdout) if v}
        lj = {k: v for k, v in cw.listing_groups(w, res["listj"].stdout) if v}
        seq, par = per_layer(res["seq"]), per_layer(res["par"])
        bad = None
        unit_idx = [k for k, l in enumerate(w["layers"]) if l["kind"] == "unit"]
        lf = {k: v for k, v in cw.listing_groups(w, res["listf"].stdout) if v}
        l1_non_unit = {k: v for k, v in l1.items() if k not in unit_idx}
        hung = [k_ for k_ in ("list1", "listj", "seq", "par", "listf") if res[k_].timeout]
        if hung:
            bad = "the %s run did not finish within 90 s" % {"seq": "sequential", "par": "-j %d" % j}.get(hung[0], "--list-tests")
        elif {k: sorted(v) for k, v in cw.listing_groups(w, res["list0"].stdout) if v} != {k: sorted(v) for k, v in l1.items()} \
                and not res["list0"].timeout:
            bad = "--list-tests lists %r per layer, with --shuffle %r" % (
                {k: sorted(v) for k, v in cw.listing_groups(w, res["list0"].stdout) if v}, {k: sorted(v) for k, v in l1.items()})
        elif lf != l1_non_unit:
            bad = "--list-tests -f lists %r, without -f the same layers are listed as %r" % (lf, l1_non_unit)
        elif l1 != lj:
            bad = "--list-tests with -j %d lists %r, without -j %r" % (j, lj, l1)
        elif seq != {k: v * wo.get("repeat", 1) for k, v in l1.items() if v}:
            bad = "the sequential run executes %r, --list-tests lists %r" % (seq, l1)
        elif par != seq:
            bad = "the -j %d run executes %r per layer, the sequential run %r" % (j, par, seq)
        elif res["seq"].exit != res["par"].exit:
            bad = "exit status %r sequentially, %r with -j %d" % (res["seq"].exit, res["par"].exit, j)
        else:
            s1 = sorted(worlds.parse_output(res["seq"].stdout)["summaries"])
            s2 = sorted(x for x in worlds.parse_output(res["par"].stdout)["summaries"] if x != (0, 0, 0, 0))
            if s1 != s2:
                bad = "per-layer summaries %r sequentially, %r with -j %d" % (s1, s2, j)
            else:
                p1, p2 = worlds.parse_output(res["seq"].stdout), worlds.parse_output(res["par"].stdout)
                for key, what in (("fail_names", "failures"), ("err_names", "errors")):
                    if sorted(p1[key]) != sorted(p2[key]):
                        bad = "'Tests with %s' lists %r sequentially, %r with -j %d" % (what, sorted(p1[key]), sorted(p2[key]), j)
                    elif p1[key] != p2[key]:
                        # the lists are lists: layer by layer in the layer order, whichever subprocess finishes first
                        bad = "'Tests with %s' lists %r in this order sequentially, in the order %r with -j %d" % (
                            what, p1[key], p2[key], j)
                # the failures and errors of the "Total:" line (the tests figure under --repeat and the skipped figure of
                # subprocesses are D5 / D4)
                if not bad and p1["total"] and p2["total"] and p1["total"][1:3] != p2["total"][1:3]:
                    bad = "Total: %r failures/errors sequentially, %r with -j %d" % (p1["total"][1:3], p2["total"][1:3], j)
        if bad:
            ctx.violation("seed %r: %s" % (seed, bad), case, signature="modes-disagree")


def alias_cases(ctx, n=None):
    """a layer object known under two names: some tests declare their layer by a dotted name (a string) that resolves
    to the very object other tests refer to directly.  Every selected test is listed once and executed once - in the
    sequential run and in the -j N run -, with its layer set up.  (Decided by the statement alone: the model identifies
    a layer with its name.)"""
    import concurrent.futures
    import os
    import shutil
    rng = ctx.rng
    n = n if n is not None else (4 if ctx.quick() else 60)
    jobs = []
    for i in range(n):
        w = worlds.gen_world(rng, n_layers=rng.choice([2, 3]), tests_per_layer=(2, 4), kinds=["pass", "pass", "fail"],
                             p_fault=0.0, p_write=0.0)
        for l in w["layers"]:
            l.pop("falsy", None)
            if l["kind"] != "unit":
                l["setUp"] = l["tearDown"] = True
        # declarations on leaves only; about half of the tests of every non-unit layer use the alias
        for m in w["modules"].values():
            m["suites"] = []
        for t in w["tests"]:
            t.pop("doctest", None)
            unit = w["layers"][t["layer"]]["kind"] == "unit"
            leaf = {"t": "leaf", "id": t["id"], "lyr": None if unit else t["layer"]}
            if not unit and rng.random() < 0.5:
                leaf["lyrAlias"] = True
            w["modules"][t["module"]]["suites"].append(leaf)
        jobs.append((i, w, rng.choice([2, 3])))

    def one(job):
        i, w, j = job
        d = os.path.join(ctx.tmp, "al%05d" % i)
        worlds.materialize(w, d)
        res = {"list": worlds.run_real(w, {"verbose": 1, "list": True}, d),
               "seq": worlds.run_real(w, {"verbose": 1}, d),
               "par": worlds.run_real(w, {"verbose": 1, "processes": j}, d)}
        shutil.rmtree(d, ignore_errors=True)
        return res
    with concurrent.futures.ThreadPoolExecutor(max_workers=4) as ex:
        results = list(ex.map(one, jobs))
    import re
    for (i, w, j), res in zip(jobs, results):
        case = {"world": w, "processes": j}
        ctx.count(("alias", str(w)[:400], j), nontrivial=True, sample=None)
        ctx.bump("aliased-layer-worlds")
        ids = sorted(t["id"] for t in w["tests"])
        layer_of = {t["id"]: t["layer"] for t in w["tests"]}
        listed = sorted(int(x) for x in re.findall(r"^\s+t(\d+) \(", res["list"].stdout, re.M))
        bad = None
        if listed != ids:
            bad = "--list-tests lists the tests %r, the selected tests are %r (missing %r)" % (
                listed, ids, sorted(set(ids) - set(listed)))
        for mode in ("seq", "par"):
            if bad:
                break
            ran = sorted(e["t"] for e in res[mode].events if e.get("ev") == "tstart")
            if ran != ids:
                bad = "the %s run executes the tests %r, the selected tests are %r (missing %r)" % (
                    "sequential" if mode == "seq" else "-j %d" % j, ran, ids, sorted(set(ids) - set(ran)))
                break
            for e in res[mode].events:
                if e.get("ev") == "ph" and isinstance(e.get("sl"), list) and \
                        w["layers"][layer_of[e["t"]]]["kind"] != "unit" and layer_of[e["t"]] not in e["sl"]:
                    bad = "test t%d runs while its layer %d is not set up (set up: %r)" % (e["t"], layer_of[e["t"]], e["sl"])
                    break
        if bad:
            ctx.violation("a layer known under two names: " + bad, case, signature="C03:alias")


def run(ctx):
    alias_cases(ctx)
    cw.standard_check(ctx, cw.corpus_cases(PROP) + gen_cases(ctx), PROP, KINDS, "runner.tests", monitor, list_first=True)
    shuffle_modes(ctx)


def replay(ctx, obj):
    c = cw.replay_case(obj)
    if c is None:
        return run(ctx)
    cw.standard_check(ctx, [c], PROP, KINDS, "runner.tests", monitor, list_first=True)
