"""C15 — correspondence of Model/Bytecode with find.remove_stale_bytecode on real directory trees:
full file-system snapshot before/after; monitor = the property (only orphans, all orphans, nothing else)."""
import contextlib
import hashlib
import io
import os
import shutil
import subprocess

from harness import common

PROP = "C15"
LEAN_MODULE = "Ztr.Props.C15"
THEOREMS = ["Ztr.Bytecode.C15_exact", "Ztr.Bytecode.C15_keep", "Ztr.Bytecode.C15_roots", "Ztr.Bytecode.C15_suffixes"]
RULE = ("random directory trees (depth <= 4) with .py/.pyc/.pyo files, look-alikes (x.pyc.bak, .pyc, pyc, X.PYC, x.pyo~), "
        "__pycache__ directories with content, ignored directory names (.git, .svn, CVS, _darcs), non-identifier "
        "directory names, unrelated files; every combination of -k / --usecompiled and 1-3 (overlapping, repeated, "
        "nested) --path/--test-path entries; the real remove_stale_bytecode (and, for a sample, a full --list-tests CLI "
        "run) on a materialised copy, complete snapshot (path, size, sha256, mode) before and after. Non-trivial = "
        "tree with at least one orphan and one non-orphan compiled file; distinct by (tree, options)")
ASSUMPTIONS = ["symlinked sub-directories are materialised (15%) and must behave like real ones (the model has no links)"]
TRUSTED = ["os.walk / os.unlink (file tree supplied to the model by the harness)"]

FILE_POOL = ["a.py", "a.pyc", "a.pyo", "b.pyc", "c.pyo", "d.py", "x.pyc.bak", ".pyc", "pyc", "X.PYC", "e.pyo~", "f.txt",
             "__init__.py", "__init__.pyc", "g.PY", "h.pyc", "h.py", ".py", "tests.pyc", "mod.pyo", "mod.py", "ä.pyc",
             "top10%.pyc", "%s.pyo", "100%.py", "100%.pyc", "%(name)s.pyc", "sp ace.pyc", "new\nline.pyo",
             # stems with dots: the source of NAME.pyc is NAME.py, whatever NAME looks like (settings modules, files
             # copied out of __pycache__, versioned data)
             "conf.local.py", "conf.local.pyc", "conf.py", "mod.cpython-312.pyc", "mod.cpython-312.pyo", "mod.py",
             "data.v2.pyo", "data.py", "data.v2.py", "a.b.c.pyc", "a.py", "..pyc", ".hidden.pyc", ".hidden.py"]
DIR_POOL = ["pkg", "sub", "__pycache__", ".git", ".svn", "CVS", "_darcs", "not-ident", "node_modules", "deep", "x.y", "Ünï",
            "git", "svn", ".tox", "tox", "arch-ids", ".arch-ids", "{arch}", "__pycache__.old", "old__pycache__",
            "__pycache__2", "CVS2", "_darcs.bak", "build[1]", "build1", "de?p", "mod.py", "a.py", "h.py", "cov-100%", "build-%d",
            "%(x)s", "{0}", "sp ace"]
FILE_POOL = list(dict.fromkeys(FILE_POOL))
# the documented defaults of --ignore_dir (cross-checked with the argparse default regenerated into Facts)
DEFAULT_IGNORE = [".git", ".svn", "CVS", "{arch}", ".arch-ids", "_darcs"]


def gen_tree(rng, depth):
    files = rng.sample(FILE_POOL, rng.randint(0, 8))
    subs = []
    if depth > 0:
        for n in rng.sample(DIR_POOL, rng.randint(0, 3)):
            subs.append([n, gen_tree(rng, depth - 1)])
    # a name is a file or a directory, not both (directories named like sources exist: "mod.py/")
    files = [f for f in files if f not in {n for n, _ in subs}]
    return {"files": files, "subs": subs}


def materialize(tree, d, rng=None, store=None):
    """`store`: [directory outside every search path, counter, root taken?]; with `rng`, some sub-directories are
    created there and linked into the tree (the walk follows symlinked directories like real ones).  The store's
    path is a character-wise prefix of the tree's path, and one link may point at the store itself."""
    os.makedirs(d, exist_ok=True)
    sub_names = {n for n, _ in tree["subs"]}
    for f in tree["files"]:
        if f in sub_names:
            continue        # one entry per name: the directory wins (the tree handed to the model says the same)
        if rng is not None and f.endswith(".py") and rng.random() < 0.08:
            # a source that is a dangling symbolic link: still an entry of the directory listing
            os.symlink(os.path.join(d, "no-such-target"), os.path.join(d, f))
            continue
        with open(os.path.join(d, f), "w") as fh:
            fh.write("content of %s\n" % f)
    for n, t in tree["subs"]:
        if rng is not None and store is not None and rng.random() < 0.15:
            if not store[2] and rng.random() < 0.5:
                store[2] = True
                target = store[0]
            else:
                store[1] += 1
                target = os.path.join(store[0] + "_links", "t%d" % store[1])
            materialize(t, target, rng, store)
            os.symlink(target, os.path.join(d, n))
        else:
            materialize(t, os.path.join(d, n), rng, store)


def snapshot(d):
    out = {}
    for root, dirs, files in os.walk(d, followlinks=True):
        for f in files:
            p = os.path.join(root, f)
            if os.path.islink(p) and not os.path.exists(p):
                out[os.path.relpath(p, d)] = ("dangling-link", os.readlink(p))
                continue
            st = os.stat(p)
            out[os.path.relpath(p, d)] = (st.st_size, hashlib.sha256(open(p, "rb").read()).hexdigest(), st.st_mode)
        for x in dirs:
            out[os.path.relpath(os.path.join(root, x), d) + "/"] = ("dir",)
    return out


def subtree(tree, comps):
    for c in comps:
        nxt = [t for n, t in tree["subs"] if n == c]
        if not nxt:
            return None
        tree = nxt[0]
    return tree


def jtree(tree):
    return {"files": [[ord(ch) for ch in f] for f in tree["files"]],
            "subs": [[[ord(ch) for ch in n], jtree(t)] for n, t in tree["subs"]]}


def orphans_statement(tree, ignore, prefix=()):
    """the property's sentence, evaluated directly"""
    out = set()
    files = set(tree["files"])
    for f in tree["files"]:
        if (f.endswith(".pyc") or f.endswith(".pyo")) and (f[:-1] not in files):
            out.add("/".join(prefix + (f,)))
    for n, t in tree["subs"]:
        if n == "__pycache__" or n in ignore:
            continue
        out |= orphans_statement(t, ignore, prefix + (n,))
    return out


def all_dirs(tree, prefix=()):
    yield prefix
    for n, t in tree["subs"]:
        yield from all_dirs(t, prefix + (n,))


def run(ctx):
    from zope.testrunner.find import remove_stale_bytecode
    from zope.testrunner.options import get_options
    rng = ctx.rng
    n = 120 if ctx.quick() else 3000
    cases = []
    from harness import corr_world as _cw
    for c in _cw.corpus_cases(PROP, kind="bytecode"):
        roots = [tuple(x for x in r.split("/") if x) for r in c["roots"]]
        cases.append((c["tree"], roots, c["keep"], c["usecompiled"], [], False))
    # directed: every way a compiled file can sit next to (or without) its source in one directory listing
    for names in (["a.py", "a.pyc", "a.pyo"], ["a.py", "a.py,cover", "a.pyc"], ["a.py", "a.py.orig", "a.pyo", "b.pyc"],
                  ["b.pyc", "b.pyo"], ["a.py", "a.pyc", "a.pyc.bak", "c.pyo"]):
        cases.append(({"files": names, "subs": [["sub", {"files": list(reversed(names)), "subs": []}]]}, [()], False, False, [], False))
    for names in (["conf.local.py", "conf.local.pyc"], ["conf.py", "conf.local.pyc"], ["mod.py", "mod.cpython-312.pyc", "mod.pyc"],
                  ["data.py", "data.v2.pyo", "data.v2.py", "data.pyo"], ["a.py", "a.b.c.pyc", "a.b.py"], [".hidden.pyc", ".hidden.py", "..pyc"]):
        cases.append(({"files": names, "subs": [["sub", {"files": [n for n in names if not n.endswith(".py")], "subs": []}]]},
                      [()], False, False, [], False))
    # directed: names given with --ignore_dir are names, not patterns
    orphan = lambda: {"files": ["old.pyc", "gone.pyo", "kept.py", "kept.pyc"], "subs": []}  # noqa: E731
    for ign in (["build[1]"], ["de?p"], ["bu*"], ["build1"]):
        cases.append(({"files": ["a.pyc"], "subs": [["pkg", {"files": [], "subs": [["build[1]", orphan()], ["build1", orphan()],
                                                                                 ["deep", orphan()], ["de?p", orphan()],
                                                                                 ["bu*", orphan()]]}]]},
                      [()], False, False, ign, False))
    for i in range(n):
        tree = gen_tree(rng, rng.choice([1, 2, 3, 4]))
        dirs = list(all_dirs(tree))
        roots = [()] if rng.random() < 0.5 else [rng.choice(dirs) for _ in range(rng.choice([1, 2, 3]))]
        if rng.random() < 0.2:
            roots.append(roots[0])
        keep = rng.random() < 0.15
        usec = rng.random() < 0.15
        extra_ignore = rng.choice([["deep"], [".tox"], ["deep", "sub"], ["build[1]"], ["de?p"], ["bu*"]]) if rng.random() < 0.35 else []
        cases.append((tree, roots, keep, usec, extra_ignore, i % 10 == 0))
    queries = []
    reals = []
    for idx, (tree, roots, keep, usec, extra_ignore, cli) in enumerate(cases):
        d = os.path.join(ctx.tmp, "bc%05d_tree" % idx)
        store_dir = os.path.join(ctx.tmp, "bc%05d" % idx)
        materialize(tree, d, rng, [store_dir, 0, False])
        before = snapshot(d)
        args = ["prog"]
        for k, r in enumerate(roots):
            args += ["--path" if k % 2 == 0 else "--test-path", os.path.join(d, *r) if r else d]
        if keep:
            args.append("-k")
        if usec:
            args.append("--usecompiled")
        for x in extra_ignore:
            args += ["--ignore_dir", x]
        if cli:
            env = dict(os.environ)
            env["PYTHONDONTWRITEBYTECODE"] = "1"
            subprocess.run([common.PY, "-m", "zope.testrunner", "--list-tests"] + args[1:], cwd=d, env=env,
                           stdout=subprocess.PIPE, stderr=subprocess.PIPE, timeout=120)
        else:
            with contextlib.redirect_stdout(io.StringIO()):
                options = get_options(list(args), [])
                try:
                    remove_stale_bytecode(options)
                except Exception as e_:  # noqa: BLE001 - what it left behind is judged below
                    ctx.bump("cleanup raised %s" % type(e_).__name__)
        after = snapshot(d)
        if not cli and idx % 3 == 0:
            # a later run in the same process (an embedding program, a test of the runner itself) over the same paths:
            # the orphans that have appeared in the meantime are removed again - nothing of the first run survives
            gone = sorted(set(before) - set(after))
            for rel in gone:
                with open(os.path.join(d, rel), "wb") as f_:
                    f_.write(b"again")
            with contextlib.redirect_stdout(io.StringIO()):
                try:
                    remove_stale_bytecode(get_options(list(args), []))
                except Exception as e_:  # noqa: BLE001
                    ctx.bump("second cleanup raised %s" % type(e_).__name__)
            left = [rel for rel in gone if os.path.exists(os.path.join(d, rel))]
            ctx.bump("second run in the process")
            if left:
                ctx.violation("a second clean-up of the same paths in the same process leaves the orphans %r (the first one "
                              "removed them)" % left[:6], {"tree": tree, "roots": ["/".join(r) for r in roots], "keep": keep,
                                                           "usecompiled": usec, "left": left}, signature="C15:second-run")
        with contextlib.redirect_stdout(io.StringIO()):
            real_ignore = sorted(get_options(list(args), []).ignore_dir)
        # the ignore set of the statement: the documented defaults plus the names given, as typed
        ignore = sorted(set(DEFAULT_IGNORE) | set(extra_ignore))
        if real_ignore != ignore:
            ctx.violation("--ignore_dir %r gives options.ignore_dir = %r, expected the defaults plus the given names %r"
                          % (extra_ignore, real_ignore, ignore), {"args": args[1:], "real": real_ignore},
                          signature="C15:ignore-set")
        shutil.rmtree(d, ignore_errors=True)
        shutil.rmtree(store_dir, ignore_errors=True)
        shutil.rmtree(store_dir + "_links", ignore_errors=True)
        reals.append((before, after, ignore))
        queries.append({"op": "bytecode", "keep": keep, "usecompiled": usec,
                        "ignore": [[ord(ch) for ch in x] for x in ignore],
                        "roots": [{"path": [[ord(ch) for ch in c] for c in r], "tree": jtree(subtree(tree, r))}
                                  for r in roots]})
    answers = ctx.driver.batch(queries)
    for (tree, roots, keep, usec, extra_ignore, cli), (before, after, ignore), ans in zip(cases, reals, answers):
        deleted = sorted(set(before) - set(after))
        changed = sorted(p for p in after if p in before and after[p] != before[p])
        created = sorted(p for p in after if p not in before and "__pycache__" not in p)
        case = {"tree": tree, "roots": ["/".join(r) for r in roots], "keep": keep, "usecompiled": usec,
                "ignore": ignore, "cli": cli, "deleted": deleted, "model": ans}
        want = set()
        if not keep and not usec:
            for r in roots:
                st = subtree(tree, r)
                want |= {"/".join(r + (p,)) if r else p for p in orphans_statement(st, set(ignore))}
        ctx.count((str(tree), tuple(roots), keep, usec), nontrivial=bool(want) and len(before) > len(want) + 2,
                  sample={"roots": case["roots"], "keep": keep, "usecompiled": usec, "deleted": deleted[:6],
                          "files": len(before)})
        ctx.bump("deleted=%d" % min(len(deleted), 5))
        ctx.bump("keep" if keep or usec else "clean")
        ctx.bump("cli" if cli else "direct")
        if changed or created:
            ctx.violation("files modified %r / created %r by the cleanup" % (changed[:5], created[:5]), case,
                          signature="C15:modified")
            continue
        if set(deleted) != want:
            ctx.violation("deleted %r, the orphans are %r (extra %r, missed %r)" % (
                deleted[:8], sorted(want)[:8], sorted(set(deleted) - want)[:5], sorted(want - set(deleted))[:5]),
                case, signature="C15:set")
            continue
        if "error" in ans:
            ctx.drift("bytecode", "driver error %s" % ans["error"], case)
            continue
        model = sorted({"/".join("".join(chr(c) for c in comp) for comp in p) for p in ans["deleted"]})
        if model != deleted:
            ctx.drift("bytecode", "model deletes %r, real %r" % (model[:8], deleted[:8]), case)


def replay(ctx, obj):
    run(ctx)
