"""Substitute for subprocess.Popen used to drive the real spawn_layer_in_subprocess with scripted
child behaviour (stdout / stderr bytes, spawn failure) and to capture the child command line."""
import contextlib
import io
import subprocess
import types


class FakePopen:
    def __init__(self, script):
        self.script = script          # dict: stdout(bytes), stderr(bytes), spawn_error(bool)
        self.calls = []

    def __call__(self, args, **kw):
        self.calls.append(list(args))
        err = self.script.get("spawn_error")
        if err:
            # every way Popen can fail to start the child: resource shortage, missing or non-executable
            # interpreter, too many open files (OSError picks the matching subclass from the errno)
            import errno
            import os
            code = err if isinstance(err, int) and not isinstance(err, bool) else errno.EAGAIN
            raise OSError(code, os.strerror(code))
        return _Child(self.script)


class _Child:
    def __init__(self, script):
        self.stdout = io.BytesIO(script.get("stdout", b""))
        hold = script.get("hold_stderr_open")
        if hold:
            # a real pipe: the report arrives at once, the write end stays open for `hold` seconds (a process left
            # behind by the tests has inherited it)
            import os
            import threading
            import time
            r, w = os.pipe()
            os.write(w, script.get("stderr", b""))

            def closer():
                time.sleep(hold)
                os.close(w)
            threading.Thread(target=closer, daemon=True).start()
            self.stderr = os.fdopen(r, "rb")
        else:
            self.stderr = io.BytesIO(script.get("stderr", b""))
        self.stdin = io.BytesIO()
        self.returncode = script.get("returncode", 0)

    def kill(self):
        pass

    def communicate(self):
        return b"", b""

    def wait(self):
        return self.returncode


@contextlib.contextmanager
def patched_popen(fake):
    """Replace `subprocess.Popen` as seen by zope.testrunner.runner only."""
    from zope.testrunner import runner
    real = runner.subprocess
    proxy = types.SimpleNamespace(**{k: getattr(real, k) for k in dir(real) if not k.startswith("__")})
    proxy.Popen = fake
    runner.subprocess = proxy
    try:
        yield
    finally:
        runner.subprocess = real


class SinkResult:
    """what resume_tests passes as `result`"""
    num_ran = 0
    done = False

    def __init__(self):
        self.lines = []

    def write(self, out):
        self.lines.append(out)
