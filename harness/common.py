"""Shared machinery of the checks: environment, Lean build/audit, driver, evidence, verdicts."""
import fcntl
import hashlib
import json
import os
import random
import re
import shutil
import subprocess
import sys
import tempfile
import time

VERIF = os.path.dirname(os.path.dirname(os.path.abspath(__file__)))
REPO = os.environ.get("ZTR_REPO", "/repo")
LEAN_DIR = os.path.join(VERIF, "lean")
DRIVER = os.path.join(LEAN_DIR, ".lake", "build", "bin", "driver")
SITE = os.path.join(VERIF, "harness", "site")
EVIDENCE = os.path.join(VERIF, "evidence")
REPLAYS = os.path.join(EVIDENCE, "replays")
KNOWN = os.path.join(VERIF, "known_findings.json")
PY = "/venv/bin/python"
GUARD = "ZOPE_TESTRUNNER_VERIF"

ALLOWED_AXIOMS = {"propext", "Classical.choice", "Quot.sound"}
FORBIDDEN = re.compile(
    r"\bsorry\b|\badmit\b|^\s*axiom\s|native_decide|bv_decide|implemented_by|\bunsafe\s|maxHeartbeats\s+0")


class InternalError(Exception):
    """Machinery problem (exit 2): never a verdict."""


def setup_env():
    """Make the real runner importable here and in every child process."""
    pp = os.environ.get("PYTHONPATH", "")
    parts = [p for p in pp.split(os.pathsep) if p]
    if SITE not in parts:
        parts.insert(0, SITE)
    os.environ["PYTHONPATH"] = os.pathsep.join(parts)
    os.environ[GUARD] = "1"
    os.environ.setdefault("PYTHONIOENCODING", "utf-8:backslashreplace")
    os.environ["PYTHONWARNINGS"] = "ignore"
    os.environ.pop("PYTHONHASHSEED", None)
    if SITE not in sys.path:
        sys.path.insert(0, SITE)
    import warnings
    warnings.filterwarnings("ignore")
    import sitecustomize  # noqa: F401  (idempotent)
    import importlib
    importlib.reload(sitecustomize)


# ---------------------------------------------------------------------------------------------
# Lean: facts, build, audit

def _lake(args, timeout):
    env = dict(os.environ)
    env.pop("PYTHONPATH", None)
    return subprocess.run(["lake"] + args, cwd=LEAN_DIR, stdout=subprocess.PIPE,
                          stderr=subprocess.STDOUT, text=True, timeout=timeout, env=env)


class BuildInfo:
    def __init__(self):
        self.ok = True
        self.failed_modules = []
        self.log = ""
        self.driver_ok = True
        self.facts = {}
        self.facts_error = None
        self.wall = 0.0


def lean_build(timeout=1500):
    """Regenerate Generated/Facts.lean from /repo and build the whole library (serialised)."""
    from harness import facts
    info = BuildInfo()
    t0 = time.time()
    lock = open(os.path.join(LEAN_DIR, ".build.lock"), "w")
    fcntl.flock(lock, fcntl.LOCK_EX)
    try:
        try:
            info.facts = facts.regenerate()
        except Exception as e:  # noqa: BLE001
            # the source no longer has the shape the translator reads: an obligation that no longer checks (the
            # previous Generated/Facts.lean stays in place so that model and correspondence still run)
            info.facts = {"unparsed": ["translator failed"]}
            info.facts_error = "%s: %s" % (type(e).__name__, e)
        try:
            r = _lake(["build"], timeout)
        except subprocess.TimeoutExpired:
            raise InternalError("lake build timed out")
        info.log = r.stdout
        if r.returncode != 0:
            info.ok = False
            info.failed_modules = sorted(set(re.findall(r"^- (\S+)$", r.stdout, re.M)))
            if not info.failed_modules:
                info.failed_modules = sorted(set(re.findall(r"Building (\S+)", r.stdout)))
            # the driver depends on Model/* and Generated/* only
            bad_for_driver = [m for m in info.failed_modules
                              if not m.startswith("Ztr.Props") and not m.startswith("Ztr.Lemmas")
                              and m != "Ztr" and not m.startswith("Ztr.Audit")]
            if bad_for_driver or not os.path.exists(DRIVER):
                info.driver_ok = False
            else:
                try:
                    r2 = _lake(["build", "driver"], timeout)
                    info.driver_ok = r2.returncode == 0
                except subprocess.TimeoutExpired:
                    info.driver_ok = False
    finally:
        fcntl.flock(lock, fcntl.LOCK_UN)
        lock.close()
    info.wall = time.time() - t0
    return info


def strip_comments(src):
    out = []
    i = 0
    depth = 0
    n = len(src)
    while i < n:
        if src.startswith("/-", i):
            depth += 1
            i += 2
        elif depth and src.startswith("-/", i):
            depth -= 1
            i += 2
        elif depth:
            i += 1
        elif src.startswith("--", i):
            j = src.find("\n", i)
            i = n if j < 0 else j
        else:
            out.append(src[i])
            i += 1
    return "".join(out)


def grep_forbidden():
    hits = []
    for root, _dirs, files in os.walk(LEAN_DIR):
        if ".lake" in root:
            continue
        for f in files:
            if f.endswith(".lean") and not f.startswith(".audit_"):
                # (.audit_*: the short-lived `#print axioms` files of checks running at the same time)
                p = os.path.join(root, f)
                try:
                    text = open(p).read()
                except FileNotFoundError:
                    continue
                for ln, line in enumerate(strip_comments(text).split("\n"), 1):
                    if FORBIDDEN.search(line):
                        hits.append("%s:%d: %s" % (os.path.relpath(p, LEAN_DIR), ln, line.strip()))
    return hits


def audit(prop, module, theorems, timeout=600, deps=()):
    """`#print axioms` for every property theorem.  Returns dict name -> list of axioms, or
    name -> None when the theorem does not exist / does not check."""
    src = "".join("import %s\n" % m for m in [module] + list(deps)) + "".join("#print axioms %s\n" % t for t in theorems)
    tmp = os.path.join(LEAN_DIR, ".audit_%s_%d.lean" % (prop, os.getpid()))
    with open(tmp, "w") as f:
        f.write(src)
    try:
        env = dict(os.environ)
        env.pop("PYTHONPATH", None)
        r = subprocess.run(["lake", "env", "lean", tmp], cwd=LEAN_DIR, stdout=subprocess.PIPE,
                           stderr=subprocess.STDOUT, text=True, timeout=timeout, env=env)
    except subprocess.TimeoutExpired:
        raise InternalError("audit timed out")
    finally:
        try:
            os.unlink(tmp)
        except OSError:
            pass
    out = r.stdout
    res = {}
    for t in theorems:
        m = re.search(r"'%s' depends on axioms: \[([^\]]*)\]" % re.escape(t), out)
        if m:
            res[t] = [a.strip() for a in m.group(1).replace("\n", " ").split(",") if a.strip()]
        elif re.search(r"'%s' does not depend on any axioms" % re.escape(t), out):
            res[t] = []
        else:
            res[t] = None
    return res, out


def leanchecker(modules, timeout=1800):
    """the toolchain's independent re-checker on the compiled modules (and everything they import): returns
    (ok, output)"""
    env = dict(os.environ)
    env.pop("PYTHONPATH", None)
    try:
        r = subprocess.run(["lake", "env", "leanchecker"] + list(modules), cwd=LEAN_DIR, stdout=subprocess.PIPE,
                           stderr=subprocess.STDOUT, text=True, timeout=timeout, env=env)
    except subprocess.TimeoutExpired:
        raise InternalError("leanchecker timed out")
    except OSError as e:
        return None, "leanchecker not available: %s" % e
    return r.returncode == 0, r.stdout[-800:]


# ---------------------------------------------------------------------------------------------
# driver

class Driver:
    """Batch interface to the compiled Lean model driver: one JSON object per line in and out."""

    def __init__(self):
        if not os.path.exists(DRIVER):
            raise InternalError("driver not built")

    def batch(self, queries, timeout=900):
        if not queries:
            return []
        data = "\n".join(json.dumps(q, separators=(",", ":")) for q in queries) + "\n"
        try:
            r = subprocess.run([DRIVER], input=data.encode(), stdout=subprocess.PIPE,
                               stderr=subprocess.PIPE, timeout=timeout)
        except subprocess.TimeoutExpired:
            raise InternalError("driver timed out")
        if r.returncode != 0:
            raise InternalError("driver failed: %s" % r.stderr.decode()[-2000:])
        lines = r.stdout.decode().split("\n")
        if lines and lines[-1] == "":
            lines.pop()
        if len(lines) != len(queries):
            raise InternalError("driver answered %d lines for %d queries" % (len(lines), len(queries)))
        out = []
        for ln in lines:
            try:
                out.append(json.loads(ln))
            except ValueError:
                raise InternalError("driver wrote non-JSON: %r" % ln[:200])
        return out


# ---------------------------------------------------------------------------------------------
# bookkeeping of one check run

def h(obj):
    return hashlib.sha256(json.dumps(obj, sort_keys=True, default=str).encode()).hexdigest()[:16]


class Ctx:
    def __init__(self, prop, tier, seed):
        self.prop = prop
        self.tier = tier
        self.seed = seed
        self.rng = random.Random((seed * 1000003) ^ int(hashlib.sha256(prop.encode()).hexdigest()[:8], 16))
        self.tmp = tempfile.mkdtemp(prefix="ztrverif-%s-" % prop)
        self.evaluations = 0
        self.traces = 0
        self._distinct = set()
        self.samples = []
        self.hist = {}
        self.violations = []      # (desc, replay_obj, signature)
        self.drifts = []          # (component, desc, replay_obj)
        self.known_hits = {}      # finding id -> description
        self.stale_findings = []
        self.notes = []
        self.driver = None
        self.exhaustive = False
        self.extra = {}

    def quick(self):
        return self.tier == "quick"

    def count(self, key, nontrivial=True, sample=None):
        self.evaluations += 1
        if nontrivial:
            self._distinct.add(key if isinstance(key, str) else h(key))
        if sample is not None and len(self.samples) < 6:
            self.samples.append(sample)

    def bump(self, name, k=1):
        self.hist[name] = self.hist.get(name, 0) + k

    def violation(self, desc, replay, signature=None):
        self.violations.append((desc, replay, signature))

    def drift(self, component, desc, replay):
        self.drifts.append((component, desc, replay))

    def cleanup(self):
        shutil.rmtree(self.tmp, ignore_errors=True)


def load_known():
    if not os.path.exists(KNOWN):
        return {"findings": [], "fixed": []}
    return json.load(open(KNOWN))


def write_replay(prop, obj):
    os.makedirs(REPLAYS, exist_ok=True)
    name = "%s-%s.json" % (prop, h(obj))
    path = os.path.join(REPLAYS, name)
    with open(path, "w") as f:
        json.dump(obj, f, indent=1, sort_keys=True, default=str)
    return os.path.relpath(path, VERIF)


def write_evidence(prop, tier, seed, coverage, assumptions, wall, violations):
    os.makedirs(EVIDENCE, exist_ok=True)
    ev = {
        "property_id": prop, "tier": tier, "seed": seed, "level": "proof",
        "coverage": coverage, "assumptions": assumptions, "wall_s": round(wall, 2),
        "violations": violations,
    }
    with open(os.path.join(EVIDENCE, "%s.json" % prop), "w") as f:
        json.dump(ev, f, indent=1, sort_keys=True, default=str)
