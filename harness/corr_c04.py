"""C04 — exceptions raised by tests and layers are contained, never abort the run."""
from harness import corr_world as cw
from harness import truth
from harness import worlds

PROP = "C04"
LEAN_MODULE = "Ztr.Props.C04"
LEAN_DEPS = ["Ztr.Props.C05", "Ztr.Props.C01", "Ztr.Props.C12"]
THEOREMS = ['Ztr.Runner.C04_no_abort', 'Ztr.Runner.C04_summary_each_iteration', 'Ztr.Runner.C04_layer_failure_recorded',
            'Ztr.Runner.C04_all_torn_down', 'Ztr.Runner.runTests_not_aborted',
            'Ztr.Result.runTests_between', 'Ztr.Result.runTest_bracket']
RULE = ("worlds whose tests raise (failure / error / SystemExit / SkipTest) in every phase (setUp, body, subtests, "
        "tearDown, cleanups), produce 1..3 result events per test, at every position of a layer; layers whose setUp or "
        "tearDown raises; --buffer on/off; verbosity 0-3; in-process, resumed and -j children. Observed: the run ends "
        "without a traceback of the runner, a summary per layer run, all layers torn down, every other test still "
        "runs (trace = model). Non-trivial = at least one raising phase; distinct by (world, options)")
ASSUMPTIONS = ["layer hooks raise classes derived from Exception; KeyboardInterrupt/MemoryError are outside the quantifier",
               "a strict-UTF-8 stdout could make the runner's own print() fail on lone surrogates; checks run with backslashreplace"]
TRUSTED = ["CPython unittest 3.12.1 callback protocol (Model/Proto)"]
KINDS = ("lsu", "ltd", "tstart", "tend", "ph")


def monitor(c):
    w = c.world
    out, err = c.obs.stdout, c.obs.stderr
    if c.obs.exit not in (0, 1):
        return ("exit status %r" % c.obs.exit, "C04:exit")
    for stream, name in ((err, "stderr"), (out, "stdout")):
        if "Traceback (most recent call last)" in stream:
            # tracebacks of test failures are printed with the runner's own header; anything raised by the
            # runner itself shows frames of zope/testrunner without a "Failure in test"/"Error in test" header
            import re
            blocks = stream.split("Traceback (most recent call last)")
            for b in blocks[1:]:
                if "zope/testrunner/__init__.py" in b and "run_internal" in b:
                    return ("the runner itself raised: %s" % b.strip().split("\n")[-1][:200], "C04:abort")
    if getattr(c.obs, "exc", None):
        return ("the in-process run was aborted: run_internal raised %s" % c.obs.exc[:200], "C04:abort")
    parent, children = cw.real_processes(c)
    vis = {i for i, l in enumerate(w["layers"]) if l["setUp"] and l["tearDown"]}
    for pname, evs in [("parent", parent)] + [("child %r" % (k,), v) for k, v in children.items()]:
        active = []
        for e in evs:
            if e[0] == "lsu" and e[2] and e[1] in vis:
                active.append(e[1])
            if e[0] == "ltd" and e[1] in active:
                active.remove(e[1])
        if active:
            return ("%s: layers %r were not torn down" % (pname, active), "C04:teardown")
        nruns = len(truth.layer_runs(c, evs, {}) if False else [])
    # a tearDown is attempted once per set-up: a layer whose tearDown raised is gone (recorded as an error), not kept
    # for another attempt
    for pname, evs in [("parent", parent)] + [("child %r" % (k,), v) for k, v in children.items()]:
        up = {}
        for e in evs:
            if e[0] == "lsu" and e[2]:
                up[e[1]] = up.get(e[1], 0) + 1
            elif e[0] == "ltd" and e[1] in vis:        # (layers with both hooks: both are in the trace)
                up[e[1]] = up.get(e[1], 0) - 1
                if up[e[1]] < 0:
                    return ("%s: the tearDown of layer %d is called again although the layer has not been set up again"
                            % (pname, e[1]), "C04:teardown-twice")
    # a layer hook that raised is "recorded as an error": the verdict says so, and the layer's tests do not run on
    # top of a set-up that failed
    tests = {t["id"]: t for t in w["tests"]}
    hook_failures = 0
    for pname, evs in [("parent", parent)] + [("child %r" % (k,), v) for k, v in children.items()]:
        failed = set()
        for e in evs:
            if e[0] == "lsu":
                if e[2]:
                    failed.discard(e[1])
                else:
                    failed.add(e[1])
                    hook_failures += 1
            elif e[0] == "ltd" and e[2] == "raise":
                hook_failures += 1
            elif e[0] == "tstart" and failed:
                need = worlds.closure(w["layers"], tests[e[1]]["layer"])
                if need & failed:
                    return ("%s: t%d ran although the set-up of layer(s) %r had failed" % (pname, e[1], sorted(need & failed)),
                            "C04:ran-on-failed-setup")
    if hook_failures and c.obs.exit != 1 and not c.obs.timeout:
        return ("%d layer hook(s) raised but the run exited with status %r" % (hook_failures, c.obs.exit), "C04:hook-not-recorded")
    # "every other selected test whose layers can be set up still runs": a selected test none of whose layers ever
    # failed to set up, in a run nobody stopped and in which no process died, started somewhere
    if c.groups is not None and not c.obs.timeout and not c.opts.get("stopOnError") \
            and not any(e.get("ev") == "die" for e in c.obs.events):
        setup_failed = {e[1] for evs in [parent] + list(children.values()) for e in evs if e[0] == "lsu" and not e[2]}
        started = {e[1] for evs in [parent] + list(children.values()) for e in evs if e[0] == "tstart"}
        for li, ts in c.groups:
            if worlds.closure(w["layers"], li) & setup_failed:
                continue
            lost = sorted(set(ts) - started)
            if lost:
                return ("selected test(s) %r of layer %s never started in any process although every layer they need "
                        "could be set up" % (["t%d" % t for t in lost[:6]], worlds.layer_name(w, li)), "C04:test-lost")
        # a layer whose setUp fails the first time only can be set up when the next stack needs it: which attempts are
        # made follows from the fault script - the model (the object of C04's theorems) says which tests run then
        pm = getattr(c, "parent_model", None)
        if pm is not None and "error" not in pm and not cw.stateful(w) and not c.opts.get("post_mortem") \
                and any(l["setUpRaises"] and 999999 not in l["setUpRaises"] for l in w["layers"]):
            model_started = {e[1] for m_ in [pm] + list(c.child_models.values()) if "error" not in m_
                             for e in m_["trace"] if e[0] == "tstart"}
            lost = sorted(model_started - started)
            if lost:
                return ("selected test(s) %r never started in any process although their layers can be set up (a layer "
                        "whose setUp failed on an earlier attempt succeeds on the next one)" % (["t%d" % t for t in lost[:6]],),
                        "C04:test-lost-retry")
    # "recorded against that test", also in children: a layer subprocess that ran to its end delivered a report the
    # parent could use
    if "Could not communicate with subprocess" in out and not c.obs.timeout \
            and not any(e.get("ev") == "die" for e in c.obs.events) and not getattr(c, "noisy", False):
        return ("the parent could not use the report of a layer subprocess although no subprocess died: the outcomes "
                "of that layer's tests are lost", "C04:report-lost")
    # a summary for every layer iteration that ran tests
    parsed = worlds.parse_output(out)
    nlayer_iters = 0
    for evs in [parent] + list(children.values()):
        seen = set()
        cur = None
        for win in truth.windows(evs):
            li = tests[win.tid]["layer"]
            if li != cur or win.tid in seen:
                nlayer_iters += 1
                seen = set()
                cur = li
            seen.add(win.tid)
    if len(parsed["headers"]) >= 2 and parsed["total"] is None and not c.obs.timeout:
        return ("%d layers were run (%r) but the run ended without its 'Total:' line" % (
            len(parsed["headers"]), parsed["headers"][:4]), "C04:no-total")
    if len(parsed["summaries"]) < nlayer_iters:
        return ("%d layer runs executed tests but only %d summaries were printed" % (nlayer_iters, len(parsed["summaries"])),
                "C04:summary")
    return None


RAISING = ["fail", "error", "subFail", "subFail2", "errTearDown", "bodyAndTearDown", "errSetUp", "errCleanup",
           "skipSetUp", "skipBody", "skipTearDown", "subSkip", "xfail", "xfailSub", "uxsuccess", "subFailThenSkip", "failThenSkipTearDown", "errThenSkipCleanup", "subSkipThenFail"]


def gen_cases(ctx):
    rng = ctx.rng
    n = 80 if ctx.quick() else 2000
    cases = []
    for i in range(n):
        w = worlds.gen_world(rng, tests_per_layer=(0, 4), kinds=RAISING + ["pass", "pass"], p_fault=0.3, p_write=0.3)
        if i % 5 == 0:
            # SystemExit inside a test part
            for t in w["tests"]:
                if t["kind"] in ("error", "errTearDown") and rng.random() < 0.5:
                    (t["body"] if t["kind"] == "error" else t["tearDown"])["exc"] = "sysexit"
        if i % 6 == 5:
            # layer hooks that fail with an OSError carrying an errno (out of memory, no space left): Exceptions like any
            for l in w["layers"]:
                if l["kind"] != "unit" and (l["setUpRaises"] or l["tearDownFaults"]):
                    l["excStyle"] = "oserror"
        o = worlds.gen_opts(rng, allow=("buffer", "j", "verbose", "repeat"))
        if rng.random() < 0.5:
            o["buffer"] = True
        if rng.random() < 0.3:
            o["color"] = True           # the colourising formatter parses the tracebacks it prints
        if rng.random() < 0.2:
            o["xml"] = "xmlout"         # the XML wrapper sits in front of the formatter
        cases.append(cw.Case(w, o))
    # directed: errors whose traceback has no frame outside unittest (a built-in registered as clean-up fails), and
    # layer hooks that raise an AttributeError naming the hook
    for i in range(6 if ctx.quick() else 100):
        w = worlds.gen_world(rng, n_layers=rng.choice([2, 3]), tests_per_layer=(1, 3),
                             kinds=["errCleanup", "errCleanup", "pass", "fail"], p_fault=0.5, p_write=0.2)
        for t in w["tests"]:
            for c_ in t["cleanups"]:
                if c_.get("exc") in ("fail", "error"):
                    c_["exc"] = "error"
                    c_["excStyle"] = "noframes"
        for l in w["layers"]:
            if l["kind"] != "unit":
                l["excStyle"] = "attr-hook"
        o = {"verbose": rng.choice([0, 1, 2]), "buffer": rng.random() < 0.5, "processes": rng.choice([1, 1, 2])}
        if i % 2 == 1:
            # exceptions without a message, with XML reports
            for t in w["tests"]:
                for p_ in cw.parts_of(t):
                    if p_.get("exc") in ("fail", "error") and p_.get("excStyle") != "noframes":
                        p_["excStyle"] = "nomsg"
            o["xml"] = "xmlout"
        cases.append(cw.Case(w, o, "directed:noframes"))
    cases += leak_cases(ctx, 6 if ctx.quick() else 100)
    cases += multi_event_cases(ctx, 6 if ctx.quick() else 100)
    return cases


def multi_event_cases(ctx, n):
    """one test, several result events of the same kind (error in the body and in tearDown, two failing sub-tests, two
    failing clean-ups), in a layer that runs in a subprocess"""
    rng = ctx.rng
    cases = []
    for i in range(n):
        w = worlds.gen_world(rng, n_layers=rng.choice([2, 3]), tests_per_layer=(1, 3), kinds=["pass", "pass", "fail"],
                             p_fault=0.0, p_write=0.0)
        for t in list(w["tests"]):
            if rng.random() < 0.5:
                kind = rng.choice(["bodyAndTearDown", "subFail2", "errCleanup"])
                nt = worlds.gen_test(rng, t["id"], [5000 + 10 * t["id"]], kind=kind, p_write=0.0)
                nt["layer"], nt["module"] = t["layer"], t["module"]
                for k in ("doctest", "rebind", "ownstream"):
                    nt.pop(k, None)
                same = rng.choice(["fail", "error"])
                if kind == "bodyAndTearDown":
                    nt["body"]["exc"] = nt["tearDown"]["exc"] = same
                elif kind == "subFail2":
                    nt["subs"][0]["exc"] = nt["subs"][2]["exc"] = same
                else:
                    nt["cleanups"][0]["exc"] = nt["cleanups"][1]["exc"] = same
                w["tests"][w["tests"].index(t)] = nt
        o = {"verbose": rng.choice([0, 1, 2]), "buffer": rng.random() < 0.4, "processes": rng.choice([2, 3])}
        cases.append(cw.Case(w, o, "directed:multi-event-in-children"))
    return cases


def in_process_cases(ctx, n):
    """the runner embedded in a program that captures the output in an io.StringIO (run_internal under
    contextlib.redirect_stdout): raising tests that wrote something, with --buffer on and off"""
    rng = ctx.rng
    cases = []
    for i in range(n):
        w = worlds.gen_world(rng, n_layers=rng.choice([1, 2, 3]), tests_per_layer=(1, 3), kinds=RAISING + ["pass"],
                             p_fault=0.2, p_write=0.7, allow_notimpl=False)
        for t in w["tests"]:
            for k in ("doctest", "rebind", "ownstream", "label"):
                t.pop(k, None)
            for p_ in cw.parts_of(t):
                p_.pop("rawbytes", None)
                p_.pop("slow", None)
                p_.pop("close", None)
        for l in w["layers"]:
            for k in ("slowSetUp", "slowTearDown"):
                l.pop(k, None)
        w.pop("sysPathObject", None)
        o = {"verbose": rng.choice([0, 1, 2]), "buffer": rng.random() < 0.7, "processes": 1}
        obs, err = cw.run_in_process(ctx, [(w, o)])
        c = cw.Case(w, o, "directed:in-process-stringio")
        if obs is None:
            ctx.drift("runner.in-process", "worker failed: %s" % err, c.replay_obj())
            continue
        c.obs = obs[0]
        cases.append(c)
    return cases


def leak_cases(ctx, n):
    """--buffer: a test replaces sys.stdout and sys.stderr by a stream of its own and raises before it puts them
    back - at the end, in the middle and at the start of its layer; the reports of that test and of everything after
    it must still reach the output"""
    rng = ctx.rng
    cases = []
    for i in range(n):
        w = worlds.gen_world(rng, n_layers=rng.choice([2, 3]), tests_per_layer=(1, 3), kinds=["pass", "pass", "fail"],
                             p_fault=0.0, p_write=0.0)
        for t in w["tests"]:
            for k in ("doctest", "rebind", "ownstream"):
                t.pop(k, None)
        victims = [t for t in w["tests"] if t["kind"] == "pass"]
        # the last test of a layer, and one more anywhere
        by_layer = {}
        for t in w["tests"]:
            by_layer.setdefault(t["layer"], []).append(t)
        chosen = [ts[-1] for ts in by_layer.values() if ts[-1]["kind"] == "pass"][:1] + ([rng.choice(victims)] if victims else [])
        for t in chosen:
            t["kind"] = "error"
            t["body"]["exc"] = "error"
            t["body"]["leakstreams"] = True
            t["body"]["writes"] = []
            t["body"].pop("excStyle", None)
        cases.append(cw.Case(w, {"verbose": rng.choice([0, 1, 2, 3]), "buffer": True, "processes": rng.choice([1, 1, 2])},
                             "directed:leak-streams"))
    return cases


def fix_sysexit_for_model(c):
    """SystemExit is an error for unittest: the model has no separate kind"""
    import copy
    w = copy.deepcopy(c.world)
    for t in w["tests"]:
        for part in [t["setUp"], t["body"], t["tearDown"]] + t["subs"] + t["cleanups"]:
            if part.get("exc") == "sysexit":
                part["exc"] = "error"
    return w


def run_cases(ctx, cases):
    real_worlds = [c.world for c in cases]
    cw.run_real_cases(ctx, cases)
    for c in cases:
        c.real_world = c.world
        c.world = fix_sysexit_for_model(c)
    cw.standard_check_after_real(ctx, cases, PROP, KINDS, "runner.contain", monitor)


def run(ctx):
    run_cases(ctx, cw.corpus_cases(PROP) + gen_cases(ctx))
    ip = in_process_cases(ctx, 6 if ctx.quick() else 80)
    for c in ip:
        c.real_world = c.world
        c.world = fix_sysexit_for_model(c)
    cw.standard_check_after_real(ctx, ip, PROP, KINDS, "runner.contain", monitor)


def probe_d39(ctx):
    """a layer whose setUp raises MemoryError (a subclass of Exception) next to a layer that is set up"""
    import os
    import random
    import shutil
    rng = random.Random(39)
    w = worlds.gen_world(rng, n_layers=2, tests_per_layer=(1, 1), kinds=["pass"], p_fault=0.0, p_write=0.0)
    non_unit = sorted([k for k, l in enumerate(w["layers"]) if l["kind"] != "unit"], key=lambda k: worlds.layer_name(w, k))
    for k in non_unit:
        w["layers"][k].update(setUp=True, tearDown=True, bases=[], setUpRaises=[], tearDownFaults=[])
        w["layers"][k].pop("falsy", None)
    w["layers"][non_unit[-1]]["dieInSetUp"] = "pymemory"
    d = os.path.join(ctx.tmp, "probe_d39")
    worlds.materialize(w, d)
    obs = worlds.run_real(w, {"verbose": 1}, d)
    shutil.rmtree(d, ignore_errors=True)
    aborted = "MemoryError" in obs.stderr and "Total:" not in obs.stdout and "Tearing down left over layers" not in obs.stdout
    return aborted, ("a layer setUp that raises MemoryError (derived from Exception) aborts the run: traceback of the "
                     "runner, no summary, the layers that were set up are not torn down (the code re-raises MemoryError on purpose)")


KNOWN_PROBES = {"D39": probe_d39}


def replay(ctx, obj):
    c = cw.replay_case(obj)
    if c is None:
        return run(ctx)
    run_cases(ctx, [c])
