"""Facts extractor: parses /repo with `ast` and regenerates lean/Ztr/Generated/Facts.lean.

Only literal facts and loop shapes are extracted; a shape that cannot be parsed is recorded as
`unparsed` (the generated constant then gets a value that makes the dependent theorems fail to check,
never a guessed one).
"""
import ast
import os

from harness import common

SRC = os.path.join(common.REPO, "src", "zope", "testrunner")
OUT = os.path.join(common.LEAN_DIR, "Ztr", "Generated", "Facts.lean")


def _parse(name):
    with open(os.path.join(SRC, name)) as f:
        return ast.parse(f.read())


def _find(tree, kind, name):
    for node in ast.walk(tree):
        if isinstance(node, kind) and getattr(node, "name", None) == name:
            return node
    return None


def feature_order(unparsed):
    """Class names appended to self.features in Runner.configure, in source order."""
    tree = _parse("runner.py")
    cls = _find(tree, ast.ClassDef, "Runner")
    fn = _find(cls, ast.FunctionDef, "configure") if cls else None
    if fn is None:
        unparsed.append("Runner.configure")
        return []
    names = []
    for node in ast.walk(fn):
        if (isinstance(node, ast.Call) and isinstance(node.func, ast.Attribute)
                and node.func.attr == "append"
                and isinstance(node.func.value, ast.Attribute)
                and node.func.value.attr == "features" and node.args):
            a = node.args[0]
            if isinstance(a, ast.Call) and isinstance(a.func, ast.Attribute):
                names.append((node.lineno, a.func.attr))
            else:
                unparsed.append("features.append(%s)" % ast.dump(a)[:40])
    names.sort()
    return [n for _, n in names]


def run_shape(unparsed):
    """Shape of Runner.run: set-ups iterate forwards, both tear-down loops iterate reversed()
    inside a `finally`, and run_tests is the body of the `try`."""
    tree = _parse("runner.py")
    cls = _find(tree, ast.ClassDef, "Runner")
    fn = _find(cls, ast.FunctionDef, "run") if cls else None
    res = {"setupForward": False, "lateForward": False, "earlyReversed": False,
           "globalReversed": False, "teardownInFinally": False, "earlyBeforeGlobal": False}
    if fn is None:
        unparsed.append("Runner.run")
        return res

    def loops(body):
        out = []
        for st in body:
            if isinstance(st, ast.For) and st.body and isinstance(st.body[0], ast.Expr) \
                    and isinstance(st.body[0].value, ast.Call) \
                    and isinstance(st.body[0].value.func, ast.Attribute):
                meth = st.body[0].value.func.attr
                rev = (isinstance(st.iter, ast.Call) and isinstance(st.iter.func, ast.Name)
                       and st.iter.func.id == "reversed")
                plain = isinstance(st.iter, ast.Attribute) and st.iter.attr == "features"
                out.append((meth, rev, plain))
        return out

    for node in ast.walk(fn):
        if isinstance(node, ast.With):
            for meth, rev, plain in loops(node.body):
                if meth == "global_setup" and plain:
                    res["setupForward"] = True
                if meth == "late_setup" and plain:
                    res["lateForward"] = True
        if isinstance(node, ast.Try) and node.finalbody:
            fl = loops(node.finalbody)
            meths = [m for m, _, _ in fl]
            for meth, rev, plain in fl:
                if meth == "early_teardown" and rev:
                    res["earlyReversed"] = True
                if meth == "global_teardown" and rev:
                    res["globalReversed"] = True
            if "early_teardown" in meths and "global_teardown" in meths:
                res["teardownInFinally"] = True
                res["earlyBeforeGlobal"] = meths.index("early_teardown") < meths.index("global_teardown")
    return res


def _const_assign(tree, name):
    for node in tree.body:
        if isinstance(node, ast.Assign) and len(node.targets) == 1 \
                and isinstance(node.targets[0], ast.Name) and node.targets[0].id == name:
            try:
                return ast.literal_eval(node.value)
            except Exception:
                return None
    return None


def _int_default(f, d, key):
    """an integer argparse default; anything else (no default, None, an expression) is -999 = "not a literal
    integer": the facts theorems that pin the documented defaults then fail to check"""
    v = d.get(key)
    if isinstance(v, bool) or not isinstance(v, int):
        return -999
    return v


def argparse_defaults(unparsed):
    tree = _parse("options.py")
    want = {"at_level", "processes", "repeat", "ignore_dir", "only_level"}
    got = {}
    pats = {}
    for node in ast.walk(tree):
        if isinstance(node, ast.Call) and isinstance(node.func, ast.Attribute) \
                and node.func.attr == "add_argument":
            kw = {k.arg: k.value for k in node.keywords}
            dest = kw.get("dest")
            if dest is None or not isinstance(dest, ast.Constant):
                continue
            d = dest.value
            if d in want and "default" in kw:
                try:
                    got[d] = ast.literal_eval(kw["default"])
                except Exception:
                    unparsed.append("default of %s" % d)
            if d in ("tests_pattern", "test_file_pattern") and "default" in kw:
                v = kw["default"]
                if isinstance(v, ast.Call) and v.args and isinstance(v.args[0], ast.Constant):
                    pats[d] = v.args[0].value
                else:
                    unparsed.append("default of %s" % d)
    for d in want:
        if d not in got:
            unparsed.append("default of %s" % d)
    return got, pats


def teardown_unneeded_shape(unparsed):
    """tear_down_unneeded: `unneeded = order_by_bases(unneeded); unneeded.reverse()` and a
    `finally: del setup_layers[layer]`."""
    tree = _parse("runner.py")
    fn = _find(tree, ast.FunctionDef, "tear_down_unneeded")
    res = {"tdOrdersByBases": False, "tdReverses": False, "tdForgetsInFinally": False}
    if fn is None:
        unparsed.append("tear_down_unneeded")
        return res
    for node in ast.walk(fn):
        if isinstance(node, ast.Call) and isinstance(node.func, ast.Name) and node.func.id == "order_by_bases":
            res["tdOrdersByBases"] = True
        if isinstance(node, ast.Call) and isinstance(node.func, ast.Attribute) and node.func.attr == "reverse":
            res["tdReverses"] = True
        if isinstance(node, ast.Try):
            for st in node.finalbody:
                if isinstance(st, ast.Delete):
                    res["tdForgetsInFinally"] = True
    return res


def _lstr(s):
    return '"' + s.replace("\\", "\\\\").replace('"', '\\"') + '"'


def _lbool(b):
    return "true" if b else "false"


def compute():
    unparsed = []
    fo = feature_order(unparsed)
    shape = run_shape(unparsed)
    td = teardown_unneeded_shape(unparsed)
    find = _parse("find.py")
    ignore_folders = _const_assign(find, "IGNORE_FOLDERS")
    compiled = _const_assign(find, "compiled_suffixes")
    unit = _const_assign(_parse("filter.py"), "UNITTEST_LAYER")
    if ignore_folders is None:
        unparsed.append("IGNORE_FOLDERS")
        ignore_folders = []
    if compiled is None:
        unparsed.append("compiled_suffixes")
        compiled = []
    if unit is None:
        unparsed.append("UNITTEST_LAYER")
        unit = ""
    defaults, pats = argparse_defaults(unparsed)
    return {
        "featureOrder": fo, "shape": shape, "td": td,
        "ignoreFolders": sorted(ignore_folders), "compiledSuffixes": list(compiled),
        "unitLayer": unit, "defaults": defaults, "patterns": pats, "unparsed": unparsed,
    }


def render(f):
    d = f["defaults"]
    lines = [
        "/- GENERATED by harness/facts.py from /repo — do not edit.  Regenerated on every check run. -/",
        "namespace Ztr.Facts",
        "",
        "/-- class names appended to `self.features` in `Runner.configure`, in source order -/",
        "def featureOrder : List String := [%s]" % ", ".join(_lstr(x) for x in f["featureOrder"]),
        "",
        "/-- shape of `Runner.run` -/",
    ]
    for k, v in sorted(f["shape"].items()):
        lines.append("def %s : Bool := %s" % (k, _lbool(v)))
    lines.append("")
    lines.append("/-- shape of `tear_down_unneeded` -/")
    for k, v in sorted(f["td"].items()):
        lines.append("def %s : Bool := %s" % (k, _lbool(v)))
    lines += [
        "",
        "def ignoreFolders : List String := [%s]" % ", ".join(_lstr(x) for x in f["ignoreFolders"]),
        "def compiledSuffixes : List String := [%s]" % ", ".join(_lstr(x) for x in f["compiledSuffixes"]),
        "def unitLayer : String := %s" % _lstr(f["unitLayer"]),
        "def defaultAtLevel : Int := %d" % _int_default(f, d, "at_level"),
        "def defaultProcesses : Int := %d" % _int_default(f, d, "processes"),
        "def defaultRepeat : Int := %d" % _int_default(f, d, "repeat"),
        "def defaultOnlyLevelIsNone : Bool := %s" % _lbool("only_level" in d and d["only_level"] is None),
        "def defaultIgnoreDir : List String := [%s]" % ", ".join(_lstr(x) for x in d.get("ignore_dir", [])),
        "def defaultTestsPattern : String := %s" % _lstr(f["patterns"].get("tests_pattern", "")),
        "def defaultTestFilePattern : String := %s" % _lstr(f["patterns"].get("test_file_pattern", "")),
        "def unparsed : List String := [%s]" % ", ".join(_lstr(x) for x in f["unparsed"]),
        "",
        "end Ztr.Facts",
        "",
    ]
    return "\n".join(lines)


def regenerate():
    f = compute()
    txt = render(f)
    os.makedirs(os.path.dirname(OUT), exist_ok=True)
    old = open(OUT).read() if os.path.exists(OUT) else None
    if old != txt:
        with open(OUT, "w") as fh:
            fh.write(txt)
    return f


if __name__ == "__main__":
    import json
    print(json.dumps(regenerate(), indent=1))
