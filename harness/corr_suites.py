"""C09 — correspondence of Model/Suites with tests_from_suite / find_tests / get_options /
Filter.global_setup; monitor = the property's sentences on the real results."""
import contextlib
import io
import sys
import types
import unittest

PROP = "C09"
LEAN_MODULE = "Ztr.Props.C09"
THEOREMS = [
    "Ztr.Suites.C09_nearest", "Ztr.Suites.C09_eligible", "Ztr.Suites.C09_only_level", "Ztr.Suites.C09_all",
    "Ztr.Suites.C09_D14_witness", "Ztr.Suites.C09_unit_both", "Ztr.Suites.C09_non_unit", "Ztr.Suites.C09_unit",
    "Ztr.Suites.C09_neither", "Ztr.Suites.C09_child",
]
RULE = ("suite trees of depth <= 5 with level/layer attributes present or absent at every node, on the test instance "
        "or its class, layers given as objects or as dotted strings, integer levels incl. 0, negatives, boundaries, "
        "StartUpFailure leaves; option vectors over --at-level/--all/--only-level/-t; -u/-f/--layer combinations on "
        "sets of layer names. Non-trivial = a tree with a nested declaration; distinct by (tree, options)")
ASSUMPTIONS = ["regex matching is supplied by the harness (C08)"]
TRUSTED = ["CPython getattr / unittest.TestSuite iteration"]

UNIT = "zope.testrunner.layer.UnitTests"
MAXSIZE = sys.maxsize
LEVELS = [None, None, 0, 1, 2, 3, -1, 5, MAXSIZE, MAXSIZE + 1]


class Layers:
    def __init__(self, k):
        from zope.testrunner.layer import UnitTests
        self.objs = [UnitTests]
        for i in range(1, k + 1):
            o = type("L%d" % i, (), {"__module__": "wm"})
            self.objs.append(o)
        self.names = [UNIT] + ["wm.L%d" % i for i in range(1, k + 1)]

    def index_of_name(self, n):
        return self.names.index(n)


NAME_SHAPES = ["t%d", "t%d", " t%d", "t%d ", "t%d\n(wm.T)", "\nt%d", "t%d\n", "\tt%d \n x"]


def _tid(test):
    return test._tid if hasattr(test, "_tid") else int(test.module[3:])


_SKIP_TOGGLE = [0]


def make_case_class(level, layer):
    ns = {"runTest": lambda self: None, "__str__": lambda self: self._name}
    _SKIP_TOGGLE[0] += 1
    if _SKIP_TOGGLE[0] % 5 == 0:
        # a class skipped as a whole (@unittest.skip on the class): its tests belong to the layer and level declared
        # for them like any others (they are reported as skipped when that layer runs)
        ns["__unittest_skip__"] = True
        ns["__unittest_skip_why__"] = "skipped as a whole"
    if level is not None:
        ns["level"] = level
    if layer is not None:
        ns["layer"] = layer
    return type("T", (unittest.TestCase,), ns)


def gen_tree(rng, layers, depth, counter, opts_stub):
    """returns (python object, json spec)"""
    from zope.testrunner.find import StartUpFailure
    kind = rng.random()
    if depth == 0 or kind < 0.35:
        if rng.random() < 0.08:
            tid = counter[0]
            counter[0] += 1
            return StartUpFailure(opts_stub, "mod%d" % tid, None), {"t": "startup", "id": tid}
        tid = counter[0]
        counter[0] += 1
        lvl = rng.choice(LEVELS)
        lyr = rng.choice([None, None] + list(range(len(layers.objs))))
        on_class = rng.random() < 0.5
        lobj = None
        if lyr is not None:
            lobj = layers.names[lyr] if rng.random() < 0.3 and lyr != 0 else layers.objs[lyr]
        pool = opts_stub.__dict__.setdefault("_class_pool", [])
        if not on_class and pool and rng.random() < 0.25:
            # another instance of a test class that is already in the tree (equal to it as unittest compares tests:
            # same class, same method), placed under other declarations
            cls = rng.choice(pool)
        else:
            cls = make_case_class(lvl if on_class else None, lobj if on_class else None)
            if not on_class:
                pool.append(cls)
        t = cls()
        # str(test) is what --test patterns see, exactly as it is: line feeds and white space at its edges included
        t._name = NAME_SHAPES[tid % len(NAME_SHAPES) if rng.random() < 0.5 else 0] % tid
        t._tid = tid
        opts_stub.__dict__.setdefault("_names", {})[tid] = t._name
        if not on_class:
            if lvl is not None:
                t.level = lvl
            if lobj is not None:
                t.layer = lobj
        return t, {"t": "leaf", "id": tid, "lvl": lvl, "lyr": lyr}
    n = rng.choice([0, 1, 2, 2, 3])
    kids = [gen_tree(rng, layers, depth - 1, counter, opts_stub) for _ in range(n)]
    lvl = rng.choice(LEVELS)
    lyr = rng.choice([None, None, None] + list(range(len(layers.objs))))
    lobj = None
    if lyr is not None:
        lobj = layers.names[lyr] if rng.random() < 0.3 and lyr != 0 else layers.objs[lyr]
    if (lvl is not None or lyr is not None) and rng.random() < 0.35:
        # the declaration is made on a TestSuite subclass (class SlowSuite(unittest.TestSuite): level = 2), not on the
        # suite object: a declaration all the same
        ns = {}
        if lvl is not None:
            ns["level"] = lvl
        if lobj is not None:
            ns["layer"] = lobj
        s = type("DeclaringSuite", (unittest.TestSuite,), ns)([k[0] for k in kids])
    else:
        s = unittest.TestSuite([k[0] for k in kids])
        if lvl is not None:
            s.level = lvl
        if lobj is not None:
            s.layer = lobj
    return s, {"t": "node", "lvl": lvl, "lyr": lyr, "kids": [k[1] for k in kids]}


def oracle_flatten(spec, dl, dly, out):
    if spec["t"] == "leaf":
        out.append((spec["id"], dl if spec["lvl"] is None else spec["lvl"], dly if spec["lyr"] is None else spec["lyr"]))
    elif spec["t"] == "startup":
        out.append((spec["id"], dl, None))
    else:
        l2 = dl if spec["lvl"] is None else spec["lvl"]
        y2 = dly if spec["lyr"] is None else spec["lyr"]
        for k in spec["kids"]:
            oracle_flatten(k, l2, y2, out)


def statement_selected(spec, at_level, only_level, accepted):
    """The property's sentences 1 and 2."""
    flat = []
    oracle_flatten(spec, 1, 0, flat)
    res = []
    for tid, lvl, lyr in flat:
        if lyr is None:
            res.append((tid, None))
            continue
        ok = (lvl == only_level) if only_level is not None else (at_level <= 0 or lvl <= at_level)
        if ok and tid in accepted:
            res.append((tid, lyr))
    return res


def _statement_accept(pats, name):
    import re
    pos = [p for p in pats if not p.startswith("!")]
    neg = [p[1:] for p in pats if p.startswith("!")]
    return (any(re.search(p, name) for p in pos) or (not pos and bool(neg))) and not any(re.search(p, name) for p in neg)


def depth_of(spec):
    return 0 if spec["t"] != "node" else 1 + max([depth_of(k) for k in spec["kids"]] or [0])


def nested_decl(spec, seen=False):
    if spec["t"] == "node":
        here = spec["lvl"] is not None or spec["lyr"] is not None
        return any(nested_decl(k, seen or here) for k in spec["kids"])
    if spec["t"] == "leaf":
        return seen and (spec["lvl"] is not None or spec["lyr"] is not None)
    return False


def run_suites(ctx):
    from zope.testrunner.find import find_tests
    from zope.testrunner.find import tests_from_suite
    from zope.testrunner.find import name_from_layer
    from zope.testrunner.filter import build_filtering_func
    rng = ctx.rng
    n = 250 if ctx.quick() else 5000
    layers = Layers(4)
    for o in layers.objs:
        name_from_layer(o)      # fill the name cache as discovery would
    cases = []
    for _ in range(n):
        counter = [0]
        stub = types.SimpleNamespace(post_mortem=False)
        trees = [gen_tree(rng, layers, rng.choice([1, 2, 3, 5]), counter, stub) for _ in range(rng.choice([1, 1, 2, 3]))]
        mode = rng.random()
        at_level, only = 1, None
        if mode < 0.3:
            at_level = rng.choice([1, 2, 0, -1, 3, MAXSIZE])
        elif mode < 0.5:
            only = rng.choice([0, 1, 2, -1, 5])
        elif mode < 0.65:
            at_level = MAXSIZE
        elif mode < 0.8:
            # --only-level overrides --at-level and --all, whatever their value
            at_level = rng.choice([0, -1, MAXSIZE, 2, -5])
            only = rng.choice([0, 1, 2, 3])
        pats = rng.choice([["."], ["t1"], ["!t1"], ["t[02468]$"], ["t1", "!t1[0-9]"], ["^t2$", "t3"], [".", "!t1"],
                           ["!t[0-4]$", "."], [".", "t1", "!t2"], ["^t"], ["!^t"], ["\\d$"], ["!\\d$"], ["t\\d+.\\("],
                           ["!\\n"], ["^ ", "x$"], ["!^\\s", "."], ["\\d \\(", "^t1$"], ["(?s)t.+T"], ["\\At\\d+\\Z"]])
        cases.append((trees, at_level, only, pats, counter[0], dict(stub.__dict__.get("_names", {}))))
        if rng.random() < 0.3:
            # the same trees as a layer subprocess sees them (--resume-layer): the tests of its layer are the ones the
            # parent filed under that layer - the nearest declaration wins in every process
            cases.append((trees, at_level, only, pats, counter[0], dict(stub.__dict__.get("_names", {})),
                          rng.choice(layers.names)))
    queries = []
    reals = []
    child_of = {}
    for k_, c_ in enumerate(cases):
        if len(c_) == 7:
            child_of[k_] = c_[6]
            cases[k_] = c_[:6]
    for k_, (trees, at_level, only, pats, nt, tnames) in enumerate(cases):
        options = types.SimpleNamespace(at_level=at_level, only_level=only, require_unique_ids=False,
                                        # (--layer patterns are applied to the layers of the registered tests by the
                                        # Filter feature afterwards: collection itself does not look at them)
                                        layer=rng.choice([None, None, ["wm.L1"], ["!L2"], ["L3", "!wm.L1"], ["UnitTests"]]),
                                        unit=False, non_unit=False, shuffle=False, shuffle_seed=None,
                                        test=pats, module=["."], keepbytecode=True, post_mortem=False,
                                        resume_layer=child_of.get(k_), resume_number=1 if k_ in child_of else 0,
                                        processes=1)
        acc = build_filtering_func(pats)
        # the statement: a test is selected by the patterns iff they select its id - str(test) as it is
        accepted = [i for i in range(nt) if _statement_accept(pats, tnames.get(i, "t%d" % i))]
        per = []
        for obj, spec in trees:
            got = []
            for test, lname in tests_from_suite(obj, options, accept=acc):
                tid = _tid(test)
                got.append((tid, None if lname is None else layers.index_of_name(lname)))
            per.append(got)
        groups = []
        found = find_tests(options, found_suites=[t[0] for t in trees])
        for lname, suite in found.items():
            ids = [_tid(t) for t in suite]
            groups.append((None if lname is None else layers.index_of_name(lname), ids))
        reals.append((per, groups, accepted))
        queries.append({"op": "suites", "suites": [t[1] for t in trees], "at_level": at_level,
                        "only_level": only, "accepted": accepted, "unit": 0})
    answers = ctx.driver.batch(queries)
    for k_, ((trees, at_level, only, pats, nt, tnames), (per, groups, accepted), ans) in enumerate(zip(cases, reals, answers)):
        specs = [t[1] for t in trees]
        if k_ in child_of:
            # a layer subprocess: only the tests of its own layer are compared (what it does with the others is its
            # business)
            mine = layers.index_of_name(child_of[k_])
            bad = None
            for spec, got in zip(specs, per):
                want = [x for x in statement_selected(spec, at_level, only, set(accepted)) if x[1] == mine]
                if not (at_level == MAXSIZE and only is None) and [tuple(x) for x in got if x[1] == mine] != want:
                    bad = ("in the subprocess of layer %s tests_from_suite files %r under that layer, the statement (and "
                           "the parent) %r" % (child_of[k_], [tuple(x) for x in got if x[1] == mine], want))
                    break
            ctx.count(["child", child_of[k_]] + specs + [at_level, only, pats], nontrivial=True, sample=None)
            ctx.bump("as-layer-subprocess")
            if bad:
                ctx.violation(bad, {"suites": specs, "at_level": at_level, "only_level": only, "patterns": pats,
                                    "resume_layer": child_of[k_], "real_per_suite": per}, signature="child-selection")
            continue
        case = {"suites": specs, "at_level": at_level, "only_level": only, "patterns": pats, "test_names": tnames,
                "real_per_suite": per, "real_groups": groups, "model": ans}
        ctx.count(case["suites"] + [at_level, only, pats], nontrivial=any(nested_decl(s) for s in specs),
                  sample={"suites": specs, "at_level": at_level, "only_level": only, "patterns": pats,
                          "real_groups": groups})
        ctx.bump("depth=%d" % max(depth_of(s) for s in specs))
        ctx.bump("only_level" if only is not None else ("all" if at_level == MAXSIZE else "at_level"))
        bad = None
        sig = "selection"
        for spec, got in zip(specs, per):
            want = statement_selected(spec, at_level, only, set(accepted))
            if [tuple(x) for x in got] != want:
                bad = "tests_from_suite selected %r, the statement selects %r" % (got, want)
                if at_level == MAXSIZE and only is None:
                    flat = []
                    oracle_flatten(spec, 1, 0, flat)
                    want_all = [(t, y) for t, l, y in flat if y is None or t in set(accepted)]
                    # --all: every level.  The only allowed deviation (D14): levels above sys.maxsize
                    missing = [w for w in want_all if w not in [tuple(x) for x in got]]
                    lv = {t: l for t, l, y in flat}
                    if missing and all(lv[t] > MAXSIZE for t, _ in missing):
                        sig = "all-level-above-maxsize"
                break
        if bad is None and at_level == MAXSIZE and only is None:
            # the statement for --all: any level
            for spec, got in zip(specs, per):
                flat = []
                oracle_flatten(spec, 1, 0, flat)
                want_all = [(t, y) for t, l, y in flat if y is None or t in set(accepted)]
                if [tuple(x) for x in got] != want_all:
                    missing = [w for w in want_all if w not in [tuple(x) for x in got]]
                    lv = {t: l for t, l, y in flat}
                    bad = "--all did not select %r" % (missing,)
                    sig = "all-level-above-maxsize" if all(lv[t] > MAXSIZE for t, _ in missing) else "selection"
        if bad is None and not (at_level == MAXSIZE and only is None):
            # find_tests registers exactly the selected tests, each under its layer (insertion order of first use)
            want_groups = {}
            for spec in specs:
                for tid, lyr in statement_selected(spec, at_level, only, set(accepted)):
                    want_groups.setdefault(lyr, []).append(tid)
            got_groups = {k: list(ts) for k, ts in groups}
            if got_groups != want_groups:
                bad = "find_tests registers %r, the statement selects %r" % (sorted(got_groups.items(), key=str),
                                                                              sorted(want_groups.items(), key=str))
                sig = "registered"
        if bad:
            ctx.violation(bad, case, signature=sig)
            if sig in ("selection", "registered"):
                continue
        if "error" in ans:
            ctx.drift("suites", "driver error %s" % ans["error"], case)
            continue
        mper = [[(a, b) for a, b in l] for l in ans["per_suite"]]
        if mper != [[tuple(x) for x in l] for l in per]:
            ctx.drift("suites.tests_from_suite", "model %r real %r" % (mper, per), case)
            continue
        mg = [(k, ts) for k, ts in ans["groups"]]
        if mg != [(k, ts) for k, ts in groups]:
            ctx.drift("suites.find_tests", "model groups %r real %r" % (mg, groups), case)


OPTION_VECTORS = [
    [], ["-u"], ["-f"], ["-u", "-f"], ["--all"], ["-a", "3"], ["--all", "-a", "2"], ["--only-level", "2"],
    ["--layer", "wm.L1"], ["--layer", "wm.L1", "--layer", "!L2"], ["-u", "--layer", "wm.L1"],
    ["-f", "--layer", "wm"], ["-f", "--layer", "UnitTests"], ["--layer", "!wm"], ["--layer", "UnitTests"],
    ["-u", "-f", "--layer", "L2"], ["--layer", "L1", "--layer", "L1"], ["-a", "0"], ["--all", "--only-level", "1"],
    ["--all", "-a", "1"], ["-a", "1", "--all"], ["-a", "2", "--all", "-a", "3"],
    ["-f", "--layer", "."], ["-f", "--layer", "!wm"], ["-u", "--layer", "."], ["-u", "--layer", "UnitTests"],
    ["--layer", "wm.L1", "--layer", "!L1"], ["--layer", "wm.L2", "--layer", "!wm"], ["--layer", "wm.L1", "--layer", "wm.L2", "--layer", "!L2"],
    ["--layer", "wm.Store", "--layer", "!Store"], ["--layer", "^wm.L1$"], ["--layer", "wm.L1$", "--layer", "!^wm"],
    ["--all", "--only-level", "2"], ["--only-level", "2", "--all"], ["-a", "0", "--only-level", "2"],
    ["--at-level=-1", "--only-level", "3"], ["--only-level", "0"], ["--at-level=0"], ["--at-level=-2"], ["-a", "0", "-u"],
    ["-t", "alpha", "-t", ""], ["-t", ""], ["-t", "", "-t", "!beta"], ["-m", "orders", "-m", ""], ["-t", "a", "-t", "a"],
    ["-t", "!x", "-t", ""], ["-m", "", "-m", "!stock"], ["-t", "alpha", "-m", "", "-t", "^$"],
    # white space at the edge of a pattern is part of the pattern (search mode: "test_a " is not "test_a")
    ["-t", "alpha "], ["-t", " alpha", "-m", "orders "], ["-t", "!alpha "], ["-m", " "], ["-t", "\tx\n"],
    ["--layer", "wm.L1 "], ["--layer", " wm", "--layer", "!L2 "], ["-t", "a b", "-m", "!\tstock "],
    # --only-level is an equality test: negative levels are levels like any other
    ["--only-level=-2"], ["--only-level=-1", "--all"], ["--at-level=3", "--only-level=-3"], ["--only-level=0"],
]
LAYER_NAME_SETS = [
    [UNIT, "wm.L1", "wm.L2"], ["wm.L1"], [UNIT], ["wm.L2", UNIT, "wm.L1", "other.Layer"], [],
    [UNIT, "x.zope.testrunner.layer.UnitTests2", "wm.L1"], [UNIT, "zope_testrunner_layer_UnitTests"],
    ["wm.L10", "wm.L1x", "xwm.L1", "wm.L1"], ["wm.Store", "wm.StoreCache", "wm.StoreIndex", "wmxStore"], ["a.b", "a+b", "a.b.c", "aXb"],
]


class Out:
    def __init__(self):
        self.msgs = []

    def info(self, m):
        self.msgs.append(m)

    def error_with_banner(self, m):
        self.msgs.append(m)


def real_filter(names, args, resume=None):
    import re
    from zope.testrunner.filter import Filter
    from zope.testrunner.options import get_options
    with contextlib.redirect_stdout(io.StringIO()):
        o = get_options(["prog"] + list(args), [])
    o.resume_layer = resume
    o.output = Out()
    rn = types.SimpleNamespace(options=o, tests_by_layer_name={n: object() for n in names}, errors=[])
    Filter(rn).global_setup()
    pats = list(o.layer) if o.layer else []
    return o, list(rn.tests_by_layer_name), pats, re


def run_layers(ctx):
    queries = []
    info = []
    for args in OPTION_VECTORS:
        for names in LAYER_NAME_SETS:
            for resume in [None] + ([names[-1]] if names else []) + ([names[0]] if len(names) > 1 else []) + \
                    (["missing.Layer"] if args == [] else []):
                o, kept, pats, re = real_filter(names, args, resume)
                neg = [p.startswith("!") for p in pats]
                mat = [[re.compile(p[1:] if p.startswith("!") else p).search(n) is not None for n in names]
                       for p in pats]
                queries.append({"op": "layer_kept", "layer_neg": neg, "match": mat, "dot": [True] * len(names),
                                "is_unit": [n == UNIT for n in names], "non_unit": bool(o.non_unit),
                                "resume": None if resume is None else (names.index(resume) if resume in names else 999)})
                info.append((args, names, resume, o, kept, pats))
    # normalisation
    nq = []
    ninfo = []
    for args in OPTION_VECTORS:
        from zope.testrunner.options import get_options
        with contextlib.redirect_stdout(io.StringIO()):
            o = get_options(["prog"] + list(args), [])
        layer_args = [args[i + 1] for i, a in enumerate(args) if a == "--layer"]
        # duplicates are collapsed by the dict in get_options; the model takes the de-duplicated list
        dedup = list(dict.fromkeys(layer_args))
        al = 1
        ol = None
        for i, a in enumerate(args):
            if a == "-a":
                al = int(args[i + 1])
            if a.startswith("--at-level="):
                al = int(a.split("=", 1)[1])
            if a == "--only-level":
                ol = int(args[i + 1])
            if a.startswith("--only-level="):
                ol = int(a.split("=", 1)[1])
        nq.append({"op": "normalize", "all": "--all" in args, "at_level": al, "only_level": ol,
                   "unit": "-u" in args, "non_unit": "-f" in args, "layer_neg": [p.startswith("!") for p in dedup]})
        ninfo.append((args, o, dedup))
    answers = ctx.driver.batch(queries + nq)
    la, na = answers[:len(queries)], answers[len(queries):]
    for (args, names, resume, o, kept, pats), ans in zip(info, la):
        case = {"args": args, "layers": names, "resume": resume, "real_kept": kept, "patterns": pats, "model": ans}
        ctx.count(("layers", tuple(args), tuple(names), resume), sample=case if len(ctx.samples) < 3 else None)
        ctx.bump("unit-switch:" + ("u" if "-u" in args else "") + ("f" if "-f" in args else "")
                 + ("L" if "--layer" in args else ""))
        # ---- monitor: -u / -f / both, as stated (no --layer, parent process)
        if resume is None and "--layer" not in args:
            u, f = "-u" in args, "-f" in args
            if u and not f:
                want = [n for n in names if n == UNIT]
            elif f and not u:
                want = [n for n in names if n != UNIT]
            else:
                want = list(names)
            if kept != want:
                other = [n for n in kept if n not in want]
                sig = "unit-switch"
                if u and not f and other and all("zope" in n for n in other):
                    sig = "unit-regex-matches-other-layer"
                ctx.violation("options %r keep layers %r, the statement keeps %r" % (args, kept, want), case, signature=sig)
                continue
        # ---- monitor: a child process keeps its --resume-layer and nothing else (C03: one layer per child)
        plain = not any(a in ("-u", "-f", "--layer") for a in args)
        if resume is not None and (any(k != resume for k in kept) or
                                   (plain and resume in names and kept != [resume])):
            ctx.violation("a child process for layer %r keeps layers %r of %r" % (resume, kept, names), case,
                          signature="child-layer-selection")
            continue
        # ---- monitor: --layer patterns decide through the C08 predicate, whatever their spelling
        if resume is None and "--layer" in args and "-u" not in args and "-f" not in args:
            import re as _re2
            pos = [p for p in pats if not p.startswith("!")]
            neg = [p[1:] for p in pats if p.startswith("!")]
            want = [n for n in names if (any(_re2.search(p, n) for p in pos) or (not pos and neg))
                    and not any(_re2.search(p, n) for p in neg)]
            if kept != want:
                ctx.violation("--layer patterns %r keep layers %r of %r, the filter predicate keeps %r" % (pats, kept, names, want),
                              case, signature="layer-patterns")
                continue
        # ---- monitor: the switches in combination with --layer (parent process)
        if resume is None and "--layer" in args:
            u, f = "-u" in args, "-f" in args
            bad = None
            if f and not u and UNIT in kept:
                bad = "--non-unit is given but the unit-test layer is kept"
            elif u and not f and any(n != UNIT for n in kept):
                bad = "--unit is given but layers other than the unit-test layer are kept"
            if bad:
                ctx.violation("options %r on layers %r keep %r: %s" % (args, names, kept, bad), case,
                              signature="unit-switch-with-layer")
                continue
        if "error" in ans:
            ctx.drift("suites.layer_kept", "driver error %s" % ans["error"], case)
            continue
        mk = [n for n, k in zip(names, ans["kept"]) if k]
        if mk != kept:
            ctx.drift("suites.layer_kept", "model keeps %r real keeps %r for %r" % (mk, kept, args), case)
    for (args, o, dedup), ans in zip(ninfo, na):
        case = {"args": args, "model": ans, "real": {"at_level": o.at_level, "unit": bool(o.unit),
                                                     "non_unit": bool(o.non_unit), "layer": list(o.layer or [])}}
        ctx.count(("normalize", tuple(args)))
        # ---- monitor: the patterns and levels the predicates get are the ones given (defaults only when none is given)
        given = {"-t": [args[i + 1] for i, a in enumerate(args) if a == "-t"],
                 "-m": [args[i + 1] for i, a in enumerate(args) if a == "-m"]}
        bad_glue = None
        for flag, attr in (("-t", "test"), ("-m", "module")):
            want_p = given[flag] or ["."]
            if list(getattr(o, attr)) != want_p:
                bad_glue = "options %r: %s patterns handed to the predicate are %r, given were %r" % (
                    args, flag, list(getattr(o, attr)), want_p)
        if dedup and not ("-u" in args and "-f" not in args) and list(o.layer or []) != dedup:
            bad_glue = "options %r: --layer patterns handed to the predicate are %r, given were %r" % (
                args, list(o.layer or []), dedup)
        olv = [int(args[i + 1]) if a == "--only-level" else int(a.split("=", 1)[1]) for i, a in enumerate(args)
               if a == "--only-level" or a.startswith("--only-level=")]
        if olv and o.only_level != olv[-1]:
            bad_glue = "options %r leave only_level = %r: --only-level %d is not in force" % (args, o.only_level, olv[-1])
        # the level given with -a / --at-level is the level in force (0 and below: every level); 1 when none is given
        alv = [int(args[i + 1]) for i, a in enumerate(args) if a == "-a"] + \
              [int(a.split("=", 1)[1]) for a in args if a.startswith("--at-level=")]
        if "--all" not in args and not bad_glue:
            want_al = alv[-1] if alv else 1
            same = (o.at_level <= 0) if want_al <= 0 else (o.at_level == want_al)
            if not same:
                bad_glue = "options %r leave at_level = %r: level %d %s is not in force" % (
                    args, o.at_level, want_al, "(every level)" if want_al <= 0 else "")
        if bad_glue:
            ctx.violation(bad_glue, case, signature="option-glue")
            continue
        # ---- monitor: --all makes every level eligible wherever it stands among the options
        if "--all" in args and o.only_level is None and not (o.at_level <= 0 or o.at_level >= MAXSIZE):
            ctx.violation("options %r leave at_level = %r: --all does not select every level" % (args, o.at_level), case,
                          signature="all-not-all")
            continue
        if "error" in ans:
            ctx.drift("suites.normalize", "driver error %s" % ans["error"], case)
            continue
        import re as _re
        pool = ["<unit>"] + [p[1:] if p.startswith("!") else p for p in dedup]
        mlayer = [("!" if b else "") + pool[p] if p > 0 else pool[0] for b, p in ans["layer"]]
        real_layer = list(o.layer or [])
        if o.unit and len(real_layer) == 1 and _re.search(real_layer[0], UNIT):
            real_layer = ["<unit>"]     # the pattern installed for --unit (its exact spelling is not modelled)
        if (ans["at_level"] != o.at_level or ans["unit"] != bool(o.unit) or ans["non_unit"] != bool(o.non_unit)
                or mlayer != real_layer):
            ctx.drift("suites.normalize", "model %r real %r" % (ans, case["real"]), case)


def run(ctx):
    run_suites(ctx)
    run_layers(ctx)


def probe_d14(ctx):
    from zope.testrunner.find import tests_from_suite
    cls = make_case_class(MAXSIZE + 1, None)
    t = cls()
    t._name = "t0"
    options = types.SimpleNamespace(at_level=MAXSIZE, only_level=None, require_unique_ids=False)
    got = list(tests_from_suite(unittest.TestSuite([t]), options))
    return (not got), "--all (at_level = sys.maxsize) does not select a test of level sys.maxsize + 1"


KNOWN_PROBES = {"D14": probe_d14}


def replay(ctx, obj):
    run(ctx)
