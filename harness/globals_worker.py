"""Worker of the C18 correspondence: in a fresh process, snapshot the interpreter-global items, call the
real zope.testrunner.run_internal in-process on a prepared world, snapshot again, print JSON."""
import gc
import io
import json
import os
import sys
import threading
import traceback
import warnings


def snapshot(names):
    """abstract values: small ints naming identities / values, stable within this process"""
    def ident(x):
        if x is None:
            return 0
        k = id(x)
        if k not in names:
            names[k] = len(names) + 100
        return names[k]
    thr = gc.get_threshold()
    return {
        "gcThr": thr[0] * 1000000 + thr[1] * 1000 + thr[2],
        "gcDbg": gc.get_debug(),
        "tbFormat": ident(traceback.format_exception),
        "tbPrint": ident(traceback.print_exception),
        "trace": ident(sys.gettrace()),
        "thrTrace": ident(threading.gettrace()),
        "setTrace": ident(sys.settrace),
        "profile": ident(sys.getprofile()),
        "warn": ident(tuple(map(repr, warnings.filters))) if False else hash(tuple(map(repr, warnings.filters))) % 1000003,
        "stdout": ident(sys.stdout),
        "stderr": ident(sys.stderr),
    }


def main():
    case = json.loads(sys.argv[1])
    os.chdir(case["dir"])
    names = {}
    # everything the runner imports is imported first: module imports may register warning filters
    import zope.testrunner.runner  # noqa: F401
    import pkg_resources  # noqa: F401
    import cProfile  # noqa: F401
    import pstats  # noqa: F401
    import trace as _trace  # noqa: F401
    if case.get("pre_gc_debug"):
        # interpreter-global state that is already set when the run starts (an embedding harness, an outer run)
        gc.set_debug(case["pre_gc_debug"])
    if case.get("pre_tb"):
        # traceback functions installed by the embedding program after the runner's modules were imported
        _orig_fe, _orig_pe = traceback.format_exception, traceback.print_exception

        def host_format_exception(*a, **kw):
            return _orig_fe(*a, **kw)

        def host_print_exception(*a, **kw):
            return _orig_pe(*a, **kw)
        traceback.format_exception = host_format_exception
        traceback.print_exception = host_print_exception
    if case.get("pre_trace"):
        def tracer(frame, event, arg):
            return None
        sys.settrace(tracer)
    real_out = sys.stdout
    sink = io.TextIOWrapper(io.BytesIO(), encoding="utf-8", errors="backslashreplace")
    sys.stdout = sink
    before = snapshot(names)
    exc = None
    try:
        from zope.testrunner import run_internal
        failed = run_internal([], [os.path.join(case["dir"], "ztr_run.py")] + case["args"],
                              **({"warnings": case["warnings"]} if case.get("warnings") else {}))
    except BaseException as e:  # noqa: BLE001
        exc = type(e).__name__
        failed = None
    after = snapshot(names)
    gc.set_debug(0)
    sys.settrace(None)
    sys.stdout = real_out
    json.dump({"before": before, "after": after, "exc": exc, "failed": failed}, sys.stdout)


if __name__ == "__main__":
    main()
