"""C18 — correspondence of Model/Bracket with in-process runs of the real runner: every subset of the
state-changing options x every ending of the test phase, snapshots of the ten global items before and
after run_internal (fresh worker process per case); monitor = before == after."""
import itertools
import json
import os
import shutil
import subprocess

from harness import common
from harness import worlds

PROP = "C18"
LEAN_MODULE = "Ztr.Props.C18"
THEOREMS = ["Ztr.Bracket.C18_restored_all", "Ztr.Bracket.C18_restored", "Ztr.Bracket.C18_reverse_order",
            "Ztr.Bracket.C18_D21_witness"]
RULE = ("every subset of {--gc 700 [10 [10]], -G DEBUG_*, --coverage, --profile cProfile, --buffer, warnings='error', -D} (2^7, sampled in the "
        "quick tier) x endings {all pass, failing tests, -x, exception from a layer's testSetUp hook, KeyboardInterrupt "
        "in a test, exception from a layer's testTearDown hook after a skipped / failed / interrupted / failed-then-skipped test}; each case runs the real run_internal in a fresh worker process and snapshots gc thresholds/debug "
        "flags, traceback.format_exception/print_exception, sys.gettrace/threading.gettrace/sys.settrace, "
        "sys.getprofile, warnings.filters, sys.stdout/sys.stderr before and after. Non-trivial = at least two options; "
        "distinct by (options, ending)")
ASSUMPTIONS = ["exceptions raised by a feature's own global_setup (before the try) are outside the statement",
               "sys.path, logging handlers and doctest report flags are changed by the runner and are not in the property's list",
               "a trace/profile hook installed before an in-process --coverage/--profile run is KNOWN-FINDING D21"]
TRUSTED = ["CPython gc / sys / threading / warnings / traceback module attributes (snapshotted, not modelled further)"]

OPTS = ["gc", "gcopt", "coverage", "profile", "buffer", "werror", "postmortem"]
ENDINGS = ["pass", "fail", "stop", "hook-raises", "interrupt", "ttd-raises-skip", "ttd-raises-fail", "ttd-raises-interrupt",
           "ttd-raises-failskip", "chdir", "rebind-err", "rebind-out", "rebind-both", "list", "swaplayer"]
FIELDS = ["gcThr", "gcDbg", "tbFormat", "tbPrint", "trace", "thrTrace", "setTrace", "profile", "warn", "stdout", "stderr"]


def make_world(ctx, ending, idx, opts=()):
    import random
    rng = random.Random(idx)
    kinds = {"pass": ["pass"], "fail": ["pass", "fail", "error"], "stop": ["fail", "pass"],
             "hook-raises": ["pass"], "interrupt": ["pass"], "ttd-raises-skip": ["skipBody"],
             "ttd-raises-fail": ["fail", "subFail2"], "ttd-raises-interrupt": ["pass"],
             "ttd-raises-failskip": ["subFailThenSkip", "failThenSkipTearDown"], "chdir": ["pass", "fail"],
             "rebind-err": ["fail", "error", "pass"], "rebind-out": ["fail", "error", "pass"],
             "rebind-both": ["fail", "error", "pass"], "list": ["pass", "fail"], "swaplayer": ["pass", "fail"]}[ending]
    w = worlds.gen_world(rng, n_layers=3 if ending == "swaplayer" else 2, tests_per_layer=(1, 2), kinds=kinds, p_fault=0.0,
                         p_write=0.3)
    if ending == "swaplayer":
        # layers that install std streams of their own while they are set up and put back what they found when they
        # are torn down: after the run the streams are those of before the run, whichever layer ran first or last
        non_unit = [l for l in w["layers"] if l["kind"] != "unit"]
        for k, l in enumerate(non_unit):
            l["bases"] = []
            l.pop("falsy", None)
            l["setUp"] = l["tearDown"] = True
            l["setUpRaises"], l["tearDownFaults"] = [], []
            if k == idx % len(non_unit) or rng.random() < 0.3:
                l["swapStreams"] = True
        if idx % 2 == 0:
            # ... in particular the layer whose tests are the first of the run (run with -f: no unit tests before it)
            first = min(range(len(w["layers"])), key=lambda k: (w["layers"][k]["kind"] == "unit", worlds.layer_name(w, k)))
            w["layers"][first]["swapStreams"] = True
    if ending == "hook-raises":
        for l in w["layers"]:
            if l["kind"] != "unit":
                l["testSetUp"] = True
                l["testSetUpRaises"] = True
    if ending.startswith("ttd-raises"):
        # the per-test tear-down hook of the layer raises after a test that skipped / failed / was interrupted
        for l in w["layers"]:
            if l["kind"] != "unit":
                l["testTearDown"] = True
                l["testTearDownRaises"] = True
    if ending.startswith("rebind"):
        # tests that save one or both std streams in setUp and put them back after their last clean-up
        for t in w["tests"]:
            t.pop("ownstream", None)
            if not t.get("doctest"):
                t["rebind"] = {"rebind-err": "err", "rebind-out": "out", "rebind-both": True}[ending]
            # (a test that saves streams and puts them back does not also close the stream it finds: putting back a
            # stream one has closed oneself is the test's own leak - false alarm of the thorough tier, seed 31)
            for p_ in [t["setUp"], t["body"], t["tearDown"]] + t["subs"] + t["cleanups"]:
                p_.pop("close", None)
    # test code that changes the warning filters for good, or installs and removes a trace function of its own
    for t in w["tests"]:
        if rng.random() < 0.4:
            rng.choice([t["setUp"], t["body"], t["tearDown"]])["warnfilter"] = True
        if rng.random() < 0.3 and ending not in ("interrupt", "ttd-raises-interrupt"):
            rng.choice([t["setUp"], t["body"], t["tearDown"]])["settrace"] = True
    # ... or takes the directory of the tests off sys.path (import isolation) and leaves it that way
    if idx % 3 == 1 and ending not in ("interrupt", "ttd-raises-interrupt", "list"):
        for t in w["tests"][-1:]:
            t["tearDown"]["droppath"] = True
    if "gc" in opts:
        # ... or tunes the collector for good: with --gc the thresholds of before the run come back all the same
        for t in w["tests"]:
            if rng.random() < 0.4:
                rng.choice([t["setUp"], t["body"], t["tearDown"]])["gcthreshold"] = True
    if ending == "chdir" and w["tests"]:
        # a test that leaves the process in another directory (relative paths of later tear-downs break)
        w["tests"][0]["body"]["chdir"] = True
    if ending in ("interrupt", "ttd-raises-interrupt") and w["tests"]:
        w["tests"][-1]["body"]["exc"] = "interrupt"
        # a test that replaces sys.stdout itself cannot put it back when it is interrupted: that would be the
        # test's leak, not the runner's
        w["tests"][-1].pop("ownstream", None)
        w["tests"][-1].pop("rebind", None)
    d = os.path.join(ctx.tmp, "g%04d" % idx)
    worlds.materialize(w, d)
    return d


def run_case(ctx, opts, ending, idx, pre_trace=False):
    d = make_world(ctx, ending, idx, opts)
    args = ["--path", d, "-v"]
    if "gc" in opts:
        args += ["--gc", "700"] + (["--gc", "10", "--gc", "10"] if idx % 2 else [])
    if "gcopt" in opts:
        args += ["-G", "DEBUG_UNCOLLECTABLE"]
    if "coverage" in opts:
        args += ["--coverage", os.path.join(d, "cov")]
    if "profile" in opts:
        # the default profile directory is the current directory (the worker starts in the world's directory)
        args += ["--profile", "cProfile"] + (["--profile-directory", d] if (idx % 2 and ending != "chdir") else [])
    if "buffer" in opts:
        args.append("--buffer")
    if ending == "stop":
        args.append("-x")
    if ending == "swaplayer" and idx % 2 == 0:
        args.append("-f")
    if ending == "list":
        # a run that only lists the tests is an in-process run that returns, too
        args.append("--list-tests")
    if "postmortem" in opts and ending in ("pass", "interrupt", "hook-raises"):
        # -D with nothing to debug (no test fails): the tests run through another loop of the runner
        args.append("-D")
    case = {"dir": d, "args": args, "pre_trace": pre_trace}
    if "werror" in opts:
        # the embedding program asks for warnings to be errors (run_internal(..., warnings="error"))
        case["warnings"] = "error"
    if idx % 4 == 2:
        # the embedding program has installed traceback functions of its own before the run
        case["pre_tb"] = True
    if "gcopt" in opts and idx % 3 == 0:
        # the flag the run asks for is already set before the run
        import gc as _gc
        case["pre_gc_debug"] = _gc.DEBUG_UNCOLLECTABLE | (_gc.DEBUG_COLLECTABLE if idx % 2 else 0)
    env = dict(os.environ)
    env.pop("ZTR_TRACE", None)
    # an interpreter started with a -W option (sys.warnoptions non-empty): the runner then installs no filter of its own
    wopt = ["-W", "ignore::ImportWarning"] if idx % 3 == 1 else []
    p = subprocess.run([common.PY] + wopt + [os.path.join(common.VERIF, "harness", "globals_worker.py"), json.dumps(case)],
                       stdin=subprocess.DEVNULL, stdout=subprocess.PIPE, stderr=subprocess.PIPE, env=env, timeout=180)
    shutil.rmtree(d, ignore_errors=True)
    try:
        res = json.loads(p.stdout.decode().strip().split("\n")[-1])
    except Exception:  # noqa: BLE001
        res = {"error": p.stderr.decode()[-800:], "stdout": p.stdout.decode()[-300:]}
    return res


def model_query(opts, before, after):
    g = [before[f] for f in FIELDS]
    feats = []
    if "coverage" in opts:
        feats.append(["coverage", 9001])
    if "profile" in opts:
        feats.append(["profiling", 9002])
    if "gc" in opts:
        feats.append(["threshold", 9003])
    if "gcopt" in opts:
        feats.append(["debug", 9004])
    feats += [["other"], ["traceback", 9005, 9006]]
    # the model's names for the original / wrapped sys.settrace
    g[FIELDS.index("setTrace")] = 1
    return {"op": "bracket", "g": g, "feats": feats, "warnAfterBody": 4242}


def run(ctx):
    import concurrent.futures
    combos = [c for k in range(len(OPTS) + 1) for c in itertools.combinations(OPTS, k)]
    cases = [(c, e) for c in combos for e in ENDINGS]
    if ctx.quick():
        cases = ctx.rng.sample(cases, 40) + [(tuple(OPTS), e) for e in ENDINGS] + \
            [(("gc", "gcopt", "profile"), "chdir"), (("gc", "profile"), "chdir"), (("gcopt", "profile", "buffer"), "chdir"),
             ((), "list"), (("gc", "gcopt"), "list"), (("coverage", "buffer"), "list"),
             (("buffer",), "swaplayer"), (("buffer", "gc"), "swaplayer"), (("buffer",), "swaplayer"), ((), "swaplayer"),
             # -D runs the tests through another loop of the runner: a per-test layer hook that raises there
             (("buffer", "postmortem"), "hook-raises"), (("postmortem",), "hook-raises"), (("buffer", "gc", "postmortem"), "hook-raises")]
    with concurrent.futures.ThreadPoolExecutor(max_workers=10) as ex:
        results = list(ex.map(lambda a: run_case(ctx, a[1][0], a[1][1], a[0]), enumerate(cases)))
    queries = []
    for (opts, ending), res in zip(cases, results):
        queries.append(model_query(opts, res["before"], res["after"]) if "before" in res else {"op": "noop"})
    answers = ctx.driver.batch(queries)
    for (opts, ending), res, ans in zip(cases, results, answers):
        case = {"options": list(opts), "ending": ending, "result": res}
        ctx.count((opts, ending), nontrivial=len(opts) >= 2, sample={"options": list(opts), "ending": ending,
                                                                     "exc": res.get("exc")})
        ctx.bump("ending:" + ending)
        ctx.bump("nopts=%d" % len(opts))
        if "before" not in res:
            ctx.drift("globals.worker", "worker failed: %s" % res.get("error", "")[-300:], case)
            continue
        diff = {f: (res["before"][f], res["after"][f]) for f in FIELDS if res["before"][f] != res["after"][f]}
        if diff:
            ctx.violation("after run_internal (options %r, ending %s, exception %r) the global state differs: %r"
                          % (list(opts), ending, res["exc"], diff), case, signature="C18:" + ",".join(sorted(diff)))
            continue
        if ending == "interrupt" and res["exc"] != "KeyboardInterrupt":
            ctx.notes.append("interrupt ending did not propagate KeyboardInterrupt: %r" % res["exc"])
        if "error" in ans:
            ctx.drift("bracket", "driver error %s" % ans["error"], case)
            continue
        mg = ans["g"]
        want = [res["after"][f] for f in FIELDS]
        want[FIELDS.index("setTrace")] = 1
        if mg != want:
            ctx.drift("bracket", "model final state %r, real %r" % (mg, want), case)


def probe_d21(ctx):
    res = run_case(ctx, ("coverage",), "pass", 9999, pre_trace=True)
    if "before" not in res:
        return False, "worker failed"
    still = res["before"]["trace"] != 0 and res["after"]["trace"] == 0
    return still, ("a trace function installed before an in-process --coverage run is gone afterwards "
                   "(tracer.stop() installs None)")


KNOWN_PROBES = {"D21": probe_d21}


def replay(ctx, obj):
    run(ctx)
