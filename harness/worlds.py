"""Generated test worlds: generation, materialisation, running the real runner, trace parsing,
and the matching query for the Lean model."""
import json
import os
import re
import shutil
import subprocess
import sys

from harness import common

TEMPLATE = os.path.join(os.path.dirname(os.path.abspath(__file__)), "world_template", "wrt.py")
UNIT_NAME = "zope.testrunner.layer.UnitTests"

RUN_SCRIPT = """import sys
from zope.testrunner import run
run()
"""

# the usual generated script (buildout / console-script wrappers): where the tests are is in the *defaults*, the
# options come from sys.argv
RUN_SCRIPT_DEFAULTS = """import os, sys
from zope.testrunner import run
run(defaults=["--path", os.path.dirname(os.path.abspath(__file__))])
"""

# a wrapper without suffix (buildout's bin/test): it extends sys.path - code the tests import lives there - and hands
# over to the runner; layer subprocesses have to go through it again
RUN_SCRIPT_WRAPPER = """import os, sys
sys.path.insert(0, os.path.join(os.path.dirname(os.path.abspath(__file__)), "extra_path"))
from zope.testrunner import run
run()
"""

MODULE_SRC = """import wrt
wrt.trace({"ev": "modimport", "m": __name__})
wrt.fail_import(__name__, "import")
wrt.trace({"ev": "modok", "m": __name__})


def test_suite():
    return wrt.suite_for_module(__name__)
"""


# -------------------------------------------------------------------------------------------
# generation

def empty_part():
    return {"writes": [], "exc": None}


def gen_part(rng, tok, p_exc=0.0, kinds=("fail", "error"), p_write=0.3):
    part = empty_part()
    if rng.random() < p_write:
        for _ in range(rng.choice([1, 1, 2])):
            part["writes"].append([rng.random() < 0.4, tok[0]])
            tok[0] += 1
    if rng.random() < p_exc:
        part["exc"] = rng.choice(kinds)
    if part["writes"] and rng.random() < 0.15:
        part["rawbytes"] = True
    if rng.random() < 0.3:
        # ("noframes" takes effect in clean-ups only: a built-in registered with addCleanup fails)
        part["excStyle"] = rng.choice(["cause", "context", "unhashable", "unhashable-cause", "syntax", "noframes", "nomsg"])
    if rng.random() < 0.03:
        part["slow"] = rng.choice([60, 75.5, 3600])       # this part of the test takes a minute or more (clock moved)
    return part


OUTCOME_KINDS = ["pass", "fail", "error", "skipDeco", "skipSetUp", "skipBody", "xfail", "uxsuccess", "subFail",
                 "subFail2", "errTearDown", "bodyAndTearDown", "errSetUp", "errCleanup", "subSkip", "xfailSub",
                 "skipTearDown", "subFailThenSkip", "failThenSkipTearDown", "errThenSkipCleanup", "subSkipThenFail"]


def gen_test(rng, tid, tok, kind=None, p_write=0.3):
    kind = kind or rng.choice(OUTCOME_KINDS)
    t = {"id": tid, "count": 1, "decoSkip": False, "expectFail": False, "kind": kind,
         "setUp": gen_part(rng, tok, p_write=p_write), "subs": [], "body": gen_part(rng, tok, p_write=p_write),
         "tearDown": gen_part(rng, tok, p_write=p_write), "cleanups": []}
    if rng.random() < 0.25:
        t["cleanups"] = [gen_part(rng, tok, p_write=p_write) for _ in range(rng.choice([1, 2]))]
    fe = rng.choice(["fail", "error"])
    if kind == "fail":
        t["body"]["exc"] = "fail"
    elif kind == "error":
        t["body"]["exc"] = "error"
    elif kind == "skipDeco":
        t["decoSkip"] = True
    elif kind == "skipSetUp":
        t["setUp"]["exc"] = "skip"
    elif kind == "skipBody":
        t["body"]["exc"] = "skip"
    elif kind == "xfail":
        t["expectFail"] = True
        t["body"]["exc"] = fe
    elif kind == "uxsuccess":
        t["expectFail"] = True
    elif kind == "subFail":
        t["subs"] = [gen_part(rng, tok, p_write=p_write), gen_part(rng, tok, p_write=p_write)]
        t["subs"][rng.randrange(2)]["exc"] = fe
    elif kind == "subFail2":
        t["subs"] = [gen_part(rng, tok, p_write=p_write) for _ in range(3)]
        t["subs"][0]["exc"] = "fail"
        t["subs"][2]["exc"] = "error"
    elif kind == "errTearDown":
        t["tearDown"]["exc"] = fe
    elif kind == "bodyAndTearDown":
        t["body"]["exc"] = fe
        t["tearDown"]["exc"] = rng.choice(["fail", "error"])
    elif kind == "errSetUp":
        t["setUp"]["exc"] = fe
    elif kind == "errCleanup":
        t["cleanups"] = [gen_part(rng, tok, p_write=p_write), gen_part(rng, tok, p_write=p_write)]
        t["cleanups"][rng.randrange(2)]["exc"] = fe
    elif kind == "subSkip":
        t["subs"] = [gen_part(rng, tok, p_write=p_write), gen_part(rng, tok, p_write=p_write)]
        t["subs"][0]["exc"] = "skip"
    elif kind == "xfailSub":
        t["expectFail"] = True
        t["subs"] = [gen_part(rng, tok, p_write=p_write), gen_part(rng, tok, p_write=p_write)]
        t["subs"][0]["exc"] = fe
    elif kind == "skipTearDown":
        t["tearDown"]["exc"] = "skip"
    elif kind == "subFailThenSkip":
        t["subs"] = [gen_part(rng, tok, p_write=p_write) for _ in range(rng.choice([2, 3]))]
        t["subs"][0]["exc"] = fe
        t["subs"][-1]["exc"] = "skip"
    elif kind == "subSkipThenFail":
        t["subs"] = [gen_part(rng, tok, p_write=p_write) for _ in range(rng.choice([2, 3]))]
        t["subs"][0]["exc"] = "skip"
        t["subs"][-1]["exc"] = fe
    elif kind == "failThenSkipTearDown":
        t["body"]["exc"] = fe
        t["tearDown"]["exc"] = "skip"
    elif kind == "errThenSkipCleanup":
        t["body"]["exc"] = fe
        t["cleanups"] = [gen_part(rng, tok, p_write=p_write), gen_part(rng, tok, p_write=p_write)]
        t["cleanups"][rng.randrange(2)]["exc"] = "skip"
    if rng.random() < 0.05:
        t["count"] = 3
    if kind in ("pass", "fail") and not t["cleanups"] and rng.random() < 0.12:
        # the same script as a doctest (DocTestCase): what it writes goes to sys.stderr
        t["doctest"] = True
        for p_ in (t["setUp"], t["body"], t["tearDown"]):
            for w_ in p_["writes"]:
                w_[0] = True
            p_.pop("excStyle", None)
    elif rng.random() < 0.15:
        t["rebind"] = rng.choice([True, True, "err", "out"])
    elif rng.random() < 0.1:
        # replaces sys.stdout by a stream of its own; what it writes for the runner to see goes to sys.stderr
        t["ownstream"] = True
        for p_ in [t["setUp"], t["body"], t["tearDown"]] + t["subs"] + t["cleanups"]:
            for w_ in p_["writes"]:
                w_[0] = True
    if rng.random() < 0.07 and not t.get("doctest") and not t.get("ownstream") and t.get("rebind") is not True and \
            not any(p_["writes"] for p_ in [t["setUp"], t["body"], t["tearDown"]] + t["subs"] + t["cleanups"]):
        # a test that closes the stream it finds as sys.stdout / sys.stderr (code that "owns" its output stream); the
        # world does this only to a capture stream of the runner (--buffer), never to the real streams.  A test that
        # also saves one stream and puts it back at its end closes the other one (putting back a stream one has
        # closed oneself is the test's own leak)
        which = {"out": "err", "err": "out"}.get(t.get("rebind")) or rng.choice(["out", "err", "both"])
        rng.choice([t["setUp"], t["body"], t["tearDown"]])["close"] = which
    if rng.random() < 0.12:
        # test names need not be plain ASCII: accents, a lone surrogate (only backslashreplace can write it), tabs
        # ... and need not fit on a line of the terminal (deep packages, descriptive method names, parameters)
        t["label"] = rng.choice(["caf\u00e9", "\udc80sur", "snow\u2603man", "tab\there", "q\"uote", "\U0001f600",
                                 "a_descriptive_name_that_says_what_is_tested_" * 3, "p" * 200 + " end"])
    return t


ODD_LAYER_NAMES = ["X.Y", "X_Y", "B(h)", "Q+", "X-Y"]
LAYER_NAMES = ["A", "B", "C", "D", "E", "F", "G", "H", "AB", "a"]


def gen_layers(rng, n, with_unit=True, p_fault=0.25, allow_notimpl=True):
    layers = []
    if with_unit:
        layers.append({"kind": "unit", "name": "UnitTests", "module": "zope.testrunner.layer", "bases": [],
                       "setUp": False, "tearDown": False, "testSetUp": False, "testTearDown": False,
                       "setUpRaises": [], "tearDownFaults": []})
    names = rng.sample(LAYER_NAMES, n)
    for i in range(n):
        idx = len(layers)
        earlier = [j for j in range(len(layers)) if layers[j]["kind"] != "unit"]
        k = rng.choice([0, 0, 1, 1, 2])
        bases = rng.sample(earlier, min(k, len(earlier)))
        kind = rng.choice(["class", "instance"])
        if kind == "class" and any(layers[b]["kind"] == "instance" for b in bases):
            kind = "instance"
        if kind == "class" and len(bases) == 2:
            # avoid MRO conflicts: a base that is an ancestor of the other base
            a, b = bases
            if a in closure(layers, b) or b in closure(layers, a):
                kind = "instance"
        if kind == "instance" and rng.random() < 0.3:
            # instance layers are named by a string: dots and regex metacharacters are legal
            odd = [n for n in ODD_LAYER_NAMES if n not in [l["name"] for l in layers]]
            if odd:
                names[i] = rng.choice(odd)
        lay = {"kind": kind, "name": names[i], "module": rng.choice(["wlayers", "wlayers", "wl2", "zzl"]), "bases": bases,
               "setUp": rng.random() < 0.85, "tearDown": rng.random() < 0.8,
               "testSetUp": rng.random() < 0.6, "testTearDown": rng.random() < 0.6,
               "setUpRaises": [], "tearDownFaults": []}
        if kind == "class" and bases:
            # a class layer inherits the hooks of its base classes (hasattr is true): give it its own
            lay["setUp"] = lay["tearDown"] = lay["testSetUp"] = lay["testTearDown"] = True
        if kind == "instance" and rng.random() < 0.2:
            lay["falsy"] = True
        if kind == "instance" and rng.random() < 0.1 and not any(l.get("module") == "wrt" for l in layers):
            # the dotted name of this layer also designates another object of an imported module
            lay["module"], lay["name"] = "wrt", rng.choice(["Base", "LayerError", "LAYERS"])
        lay["excStyle"] = rng.choice([None, None, "cause", "context", "unhashable", "unhashable-cause", "syntax", "attr-hook",
                                      "oserror", "notimpl"])
        if rng.random() < 0.12:
            # a hook that takes a minute or more (the world moves the clock instead of sleeping)
            lay[rng.choice(["slowSetUp", "slowTearDown"])] = rng.choice([60, 61.5, 75, 119.9995, 3600, 86400.25])
        if lay["setUp"] and rng.random() < p_fault * 0.5:
            lay["setUpRaises"] = rng.choice([[0], [0], [1], [999999]])
        if lay["tearDown"] and rng.random() < p_fault:
            code = rng.choice([1, 2, 2]) if allow_notimpl else 1
            lay["tearDownFaults"] = [[rng.choice([0, 0, 999999]), code]]
        layers.append(lay)
        assert idx == len(layers) - 1
    return layers


def closure(layers, l):
    seen = set()
    todo = [l]
    while todo:
        x = todo.pop()
        if x not in seen:
            seen.add(x)
            todo.extend(layers[x]["bases"])
    return seen


def gen_world(rng, n_layers=None, tests_per_layer=(0, 4), kinds=None, p_fault=0.25, p_write=0.3,
              allow_notimpl=True, import_errors=False, nested=False, layout=None):
    n_layers = rng.choice([1, 2, 3, 3, 4, 5]) if n_layers is None else n_layers
    layers = gen_layers(rng, n_layers, with_unit=True, p_fault=p_fault, allow_notimpl=allow_notimpl)
    tok = [1]
    tests = []
    modules = {}
    modnames = ["tests", "pa.tests", "pb.tests"][:rng.choice([1, 1, 2, 3])]
    if layout is not None:
        # another shape of the tree below the search path (see LAYOUTS)
        modnames = list(layout["modnames"])
    for m in modnames:
        modules[m] = {"suites": [], "importError": False}
    tid = 0
    for li in range(len(layers)):
        n = rng.randint(*tests_per_layer)
        if layers[li]["kind"] == "unit" and rng.random() < 0.4:
            n = 0
        for _ in range(n):
            t = gen_test(rng, tid, tok, kind=(rng.choice(kinds) if kinds else None), p_write=p_write)
            t["layer"] = li
            t["module"] = rng.choice(modnames)
            tests.append(t)
            tid += 1
    # suites: per module, group tests into suites with the layer declared on the leaf or on a suite
    for m in modnames:
        mine = [t for t in tests if t["module"] == m]
        rng.shuffle(mine)
        by_layer = {}
        for t in mine:
            by_layer.setdefault(t["layer"], []).append(t)
        for li, ts in by_layer.items():
            unit = layers[li]["kind"] == "unit"
            if rng.random() < 0.5:
                # declaration on an enclosing suite (nested once more sometimes)
                kids = [{"t": "leaf", "id": t["id"]} for t in ts]
                node = {"t": "node", "kids": kids, "lyr": None if unit else li, "lvl": None}
                if nested or rng.random() < 0.3:
                    node = {"t": "node", "kids": [node], "lyr": None, "lvl": None}
                modules[m]["suites"].append(node)
            else:
                for t in ts:
                    modules[m]["suites"].append({"t": "leaf", "id": t["id"], "lyr": None if unit else li})
    if nested:
        # a test with a layer declaration of its own inside a suite that declares another layer (the nearest declaration
        # wins - in every process): one or two tests of non-unit layers move, with their declarations, into another
        # layer's suite (of any module)
        by_id = {t["id"]: t for t in tests}
        for _ in range(2):
            def declaring(nodes):
                for n_ in nodes:
                    if n_["t"] == "node":
                        if n_.get("lyr") is not None and n_["kids"] and n_["kids"][0]["t"] == "leaf":
                            yield n_
                        else:
                            yield from declaring(n_["kids"])
            hosts = [(m, n_) for m in modnames for n_ in declaring(modules[m]["suites"])]
            donors = [(m, n_) for m in modnames for n_ in modules[m]["suites"] if n_["t"] == "leaf" and n_.get("lyr") is not None]
            donors = [(m, n_) for m, n_ in donors if any(h_["lyr"] != n_["lyr"] for _, h_ in hosts)]
            if not (hosts and donors):
                break
            dm, leaf = rng.choice(donors)
            hm, host = rng.choice([(m, h_) for m, h_ in hosts if h_["lyr"] != leaf["lyr"]])
            modules[dm]["suites"].remove(leaf)
            host["kids"].insert(rng.randint(0, len(host["kids"])), leaf)
            by_id[leaf["id"]]["module"] = hm
    if import_errors and rng.random() < 0.5:
        # how the module fails: at import or in test_suite(), with an ordinary exception or with one that is
        # not an Exception (a module calling sys.exit() when a dependency is missing)
        modules["pz.tests"] = {"suites": [], "importError": rng.choice(
            [True, True, "sysexit0", "sysexit3", "base", "suite:error", "suite:sysexit0"])}
    world = {"layers": layers, "tests": tests, "modules": modules}
    if layout is not None:
        for k_ in ("plainDirs", "aliases"):
            if layout.get(k_):
                world[k_] = layout[k_]
    if rng.random() < 0.12:
        # the code under test leaves an object that is not a string on sys.path (a pathlib.Path: legal, the import
        # system skips it) - from the moment the test modules are imported
        world["sysPathObject"] = True
    return world


def gen_opts(rng, allow=("repeat", "stop", "buffer", "j", "verbose", "shuffle")):
    o = {"repeat": 1, "stopOnError": False, "buffer": False, "processes": 1, "verbose": 1, "shuffle_seed": None,
         "layer": [], "test": []}
    if "repeat" in allow and rng.random() < 0.25:
        o["repeat"] = rng.choice([2, 2, 3])
    if "stop" in allow and rng.random() < 0.25:
        o["stopOnError"] = True
    if "buffer" in allow and rng.random() < 0.3:
        o["buffer"] = True
    if "j" in allow and rng.random() < 0.25:
        o["processes"] = rng.choice([2, 3])
    if "verbose" in allow:
        o["verbose"] = rng.choice([0, 1, 1, 2, 3])
    if "shuffle" in allow and rng.random() < 0.15:
        o["shuffle_seed"] = rng.randint(0, 10 ** 6)
    if rng.random() < 0.5:
        o["argseed"] = rng.randint(0, 10 ** 6)
    if rng.random() < 0.4:
        # options that change nothing the properties speak about: colours and progress off/automatic, diff styles,
        # secondary failures, slow-test threshold, deprecated no-ops, alternative spellings
        o["decor"] = rng.sample(NEUTRAL_OPTIONS, rng.choice([1, 1, 2, 3]))
        # (the three diff styles exclude each other: the runner refuses two of them)
        diffs = [g for g in o["decor"] if g[0] in ("--udiff", "--ndiff", "--cdiff")]
        o["decor"] = [g for g in o["decor"] if g not in diffs[1:]]
        if rng.random() < 0.3:
            o["color"] = True       # (--color: the escape sequences are taken out of the output before it is read)
    if rng.random() < 0.1:
        # XML reports besides the console output: nothing the properties speak about changes (in particular the
        # standard streams are not captured unless --buffer says so)
        o["xml"] = "xml-reports"
    return o


# shapes of the tree below the search path other than <dir>/tests.py, <dir>/pa/tests.py, <dir>/pb/tests.py:
# a tests *package* (its test_*.py files are test modules), plain directories (no __init__.py: namespace packages)
# below a package or below a tests package, and directories that are reachable under two names (a symbolic link
# to a package of the same tree: "walked like real ones")
LAYOUTS = [
    {"modnames": ["tests", "pa.tests.test_a", "pa.tests.fix.tests"], "plainDirs": ["pa/tests/fix"]},
    {"modnames": ["pa.tests.test_a", "pa.tests.sub.tests", "pa.tests.fix.deep.tests"],
     "plainDirs": ["pa/tests/fix", "pa/tests/fix/deep"]},
    {"modnames": ["pa.samples.tests", "pa.tests.test_b", "pa.tests.regress.tests"], "plainDirs": ["pa/samples", "pa/tests/regress"]},
    {"modnames": ["pa.tests", "pz.tests", "tests"], "aliases": {"pz": "pa"}},
    {"modnames": ["pb.tests", "pa.tests"], "aliases": {"pa": "pb"}},
    {"modnames": ["pa.sub.tests", "pa.tests", "pa.zlink.tests"], "aliases": {"pa/zlink": "pa/sub"}},
]


def shape_relpath_chdir(rng, w, o):
    """a relative search path, tests (in the layers run first) that leave the process in another directory, and a
    layer that cannot be torn down so that the rest is resumed in subprocesses, one after another"""
    o["relpath"] = True
    o["processes"] = 1
    non_unit = sorted([k for k, l in enumerate(w["layers"]) if l["kind"] != "unit"], key=lambda k: layer_name(w, k))
    if non_unit:
        w["layers"][non_unit[0]]["tearDown"] = True
        w["layers"][non_unit[0]]["tearDownFaults"] = [[999999, 2]]
    for t in w["tests"]:
        if rng.random() < 0.5 and not t.get("doctest"):
            t["body"]["chdir"] = True


def shape_argv_clobber(rng, w, o):
    """the runner started by a wrapper script (search path in the defaults, options in sys.argv), tests of
    command-line code that empty sys.argv in place and do not put it back, and a layer that cannot be torn down so
    that the rest is resumed in subprocesses after such tests ran in the main process"""
    o["defaults_path"] = True
    o["processes"] = 1
    o.pop("relpath", None)
    non_unit = sorted([k for k, l in enumerate(w["layers"]) if l["kind"] != "unit"], key=lambda k: layer_name(w, k))
    if non_unit:
        w["layers"][non_unit[0]]["tearDown"] = True
        w["layers"][non_unit[0]]["tearDownFaults"] = [[999999, 2]]
    for t in w["tests"]:
        if rng.random() < 0.6 and not t.get("doctest"):
            t["setUp"]["argv"] = True


def shape_shared_class(rng, w):
    """tests of different layers (and levels) that are instances of ONE test class, side by side in one suite: the
    layer is declared on each instance"""
    plain = [t for t in w["tests"] if t["kind"] in ("pass", "fail", "error") and not t.get("doctest")]
    by_mod = {}
    for t in plain:
        by_mod.setdefault(t["module"], []).append(t)
    gid = 0
    for m, ts in by_mod.items():
        if len({t["layer"] for t in ts}) < 2:
            continue
        chosen = rng.sample(ts, min(len(ts), rng.choice([2, 3, 4])))
        ids = {t["id"] for t in chosen}

        def prune(nodes):
            out = []
            for n_ in nodes:
                if n_["t"] == "leaf":
                    if n_["id"] not in ids:
                        out.append(n_)
                else:
                    n_["kids"] = prune(n_["kids"])
                    out.append(n_)
            return out
        unit = next(i for i, l in enumerate(w["layers"]) if l["kind"] == "unit")
        w["modules"][m]["suites"] = prune(w["modules"][m]["suites"])
        leaves = []
        for t in chosen:
            t["classGroup"] = gid
            for k in ("rebind", "ownstream"):
                t.pop(k, None)
            leaves.append({"t": "leaf", "id": t["id"], "lyr": None if t["layer"] == unit else t["layer"]})
        rng.shuffle(leaves)
        w["modules"][m]["suites"].append({"t": "node", "kids": leaves, "lyr": None, "lvl": None})
        gid += 1
    return gid > 0


def shape_substring_names(rng, w, o, parallel=False):
    """layer names that contain one another (S, Sx, Sxx ...; as regular expressions each finds itself in the
    later ones), every layer with a test, run in subprocesses (-j N, or layers that cannot be torn down)"""
    nonunit = [l for l in w["layers"] if l["kind"] != "unit"]
    for k, l in enumerate(nonunit):
        l["module"] = "wlayers"
        l["name"] = "S" + "x" * k
        l["setUp"] = l["tearDown"] = True
        l.pop("falsy", None)
        if not parallel and k < len(nonunit) - 1 and rng.random() < 0.7:
            l["tearDownFaults"] = [[999999, 2]]
    have = {t["layer"] for t in w["tests"]}
    for li, l in enumerate(w["layers"]):
        if l["kind"] != "unit" and li not in have:
            t = gen_test(rng, max([x["id"] for x in w["tests"]] + [0]) + 1, [1], kind="pass", p_write=0.0)
            t["layer"], t["module"] = li, next(iter(w["modules"]))
            w["tests"].append(t)
            w["modules"][t["module"]]["suites"].append({"t": "leaf", "id": t["id"], "lyr": li})
    o["processes"] = rng.choice([2, 3]) if parallel else 1
    o["stopOnError"] = False
    o.pop("layer", None)


NEUTRAL_OPTIONS = [["--no-color"], ["-C"], ["--auto-color"], ["--no-progress"], ["--auto-progress"], ["--slow-test", "0.5"],
                   ["-1"], ["--show-secondary-failures"], ["--hide-secondary-failures"], ["--udiff"], ["--ndiff"], ["--cdiff"],
                   ["--exit-with-status"], ["--require-unique"], ["--gc-after-test"], ["--slow-test=100"], ["--progress"], ["-p"]]


# -------------------------------------------------------------------------------------------
# materialise and run

def normalise(world):
    """generator hygiene, applied to every world before it is written out (and hence before the model sees it): a test
    that closes the stream it finds as sys.stdout / sys.stderr writes nothing itself - writing to a stream one has
    closed is an error of the test's own, which no outcome script accounts for.  (The checks compose worlds from several
    generators: one adds `close`, another adds writes later; thorough runs with seed 11 and a quick run with seed 3
    raised three false alarms of this shape.)"""
    for t in world.get("tests", []):
        parts = [t["setUp"], t["body"], t["tearDown"]] + list(t.get("subs", [])) + list(t.get("cleanups", []))
        if any(p.get("close") for p in parts) and any(p.get("writes") or p.get("stderr_text") or p.get("rawbytes")
                                                      for p in parts):
            for p in parts:
                p.pop("close", None)


def materialize(world, d):
    normalise(world)
    os.makedirs(d, exist_ok=True)
    shutil.copy(TEMPLATE, os.path.join(d, "wrt.py"))
    with open(os.path.join(d, "world.json"), "w") as f:
        json.dump(world, f)
    with open(os.path.join(d, "ztr_run.py"), "w") as f:
        f.write(RUN_SCRIPT)
    with open(os.path.join(d, "ztr_run_d.py"), "w") as f:
        f.write(RUN_SCRIPT_DEFAULTS)
    with open(os.path.join(d, "ztr_wrap"), "w") as f:
        f.write(RUN_SCRIPT_WRAPPER)
    os.makedirs(os.path.join(d, "extra_path"), exist_ok=True)
    with open(os.path.join(d, "extra_path", "whelper.py"), "w") as f:
        f.write("VALUE = 1\n")
    plain = set(world.get("plainDirs") or [])
    aliases = world.get("aliases") or {}
    for m in world["modules"]:
        parts = m.split(".")
        rel = "/".join(parts[:-1])
        if any(rel == a or rel.startswith(a + "/") for a in aliases):
            continue          # reached through the link (the file of the link's target serves both names)
        p = d
        for k_, pkg in enumerate(parts[:-1]):
            p = os.path.join(p, pkg)
            os.makedirs(p, exist_ok=True)
            init = os.path.join(p, "__init__.py")
            if not os.path.exists(init) and "/".join(parts[:k_ + 1]) not in plain:
                open(init, "w").close()
        with open(os.path.join(p, parts[-1] + ".py"), "w") as f:
            f.write(MODULE_SRC)
    for link, target in aliases.items():
        lp = os.path.join(d, link)
        if not os.path.lexists(lp):
            os.symlink(os.path.relpath(os.path.join(d, target), os.path.dirname(lp)), lp)


def cli_args(d, o, extra=()):
    """the command line of a run.  With o["argseed"] the option groups are put in a seed-determined order and
    spelling (--opt VALUE / --opt=VALUE, -jN / -j N): the runner re-parses its own arguments for children."""
    import random as _random
    head = [common.PY, os.path.join(d, "ztr_run.py"), "--path", "." if o.get("relpath") else d]
    if o.get("defaults_path"):
        head = [common.PY, os.path.join(d, "ztr_run_d.py")]
    if o.get("wrapper"):
        head[1] = os.path.join(d, "ztr_wrap")
    rnd = _random.Random(o["argseed"]) if o.get("argseed") is not None else None

    def opt(name, value):
        if rnd is not None and name.startswith("--") and rnd.random() < 0.5:
            return ["%s=%s" % (name, value)]
        return [name, str(value)]
    groups = []
    if o.get("verbose"):
        groups.append(["-" + "v" * o["verbose"]])
    if o.get("repeat", 1) != 1:
        groups.append(opt("--repeat", o["repeat"]) if rnd is None or rnd.random() < 0.7 else ["-N", str(o["repeat"])])
    if o.get("stopOnError"):
        groups.append(["-x"] if rnd is None or rnd.random() < 0.5 else [rnd.choice(["--stop-on-error", "--stop"])])
    if o.get("buffer"):
        groups.append(["--buffer"])
    if o.get("color"):
        groups.append(["-c"])
    if o.get("processes", 1) != 1:
        groups.append(["-j%d" % o["processes"]] if rnd is not None and rnd.random() < 0.5 else ["-j", str(o["processes"])])
    if o.get("shuffle_seed") is not None:
        groups.append(["--shuffle"])
        groups.append(opt("--shuffle-seed", o["shuffle_seed"]))
    for p_ in o.get("layer", []):
        groups.append(["--layer", p_])
    for p_ in o.get("test", []):
        groups.append(["-t", p_])
    if o.get("unit"):
        groups.append(["-u"])
    if o.get("non_unit"):
        groups.append(["-f"])
    if o.get("at_level") is not None:
        groups.append(["-a", str(o["at_level"])] if o["at_level"] >= 0 else ["--at-level=%d" % o["at_level"]])
    if o.get("all"):
        groups.append(["--all"])
    if o.get("only_level") is not None:
        groups.append(opt("--only-level", o["only_level"]))
    if o.get("post_mortem"):
        groups.append(["-D"])
    if o.get("pkgpath"):
        # a directory under the search path that is also mapped into its package by --package-path
        groups.append(["--package-path", os.path.join(d, o["pkgpath"]), o["pkgpath"]])
    for p_ in o.get("modpat", []):
        groups.append(["-m", p_])
    for g_ in o.get("decor", []):
        groups.append(list(g_))
    if o.get("list"):
        groups.append(["--list-tests"])
    if o.get("xml"):
        groups.append(["--xml", o["xml"]])
    if rnd is not None:
        # patterns keep their relative order (the filter is order-independent, the listing is not asked to be)
        rnd.shuffle(groups)
    if o.get("seed_eq_then_x") and o.get("shuffle_seed") is not None and o.get("stopOnError"):
        groups = [g for g in groups if g[0] not in ("-x", "--stop-on-error", "--shuffle") and not g[0].startswith("--shuffle-seed")]
        groups.append(["--shuffle", "--shuffle-seed=%d" % o["shuffle_seed"], "-x"])
    args = head + [a for g in groups for a in g]
    args += list(extra)
    return args


class Obs:
    """What one real run showed."""

    def __init__(self):
        self.exit = None
        self.stdout = ""
        self.stderr = ""
        self.events = []          # all trace events in file order
        self.parent_pid = None
        self.procs = {}           # pid -> {"resume": (layer name, number) or None, "events": [...]}
        self.timeout = False


def run_real(world, o, d, extra=(), timeout=120, env_extra=None):
    trace = os.path.join(d, "trace.jsonl")
    if os.path.exists(trace):
        os.unlink(trace)
    env = dict(os.environ)
    env["ZTR_TRACE"] = trace
    env["PYTHONHASHSEED"] = env.get("PYTHONHASHSEED", "0")
    env["COLUMNS"] = "80"
    env.pop("TERM", None)
    if env_extra:
        env.update(env_extra)
    if o.get("_env"):
        env.update(o["_env"])
    obs = Obs()
    p = subprocess.Popen(cli_args(d, o, extra), cwd=d, stdin=subprocess.PIPE, stdout=subprocess.PIPE, stderr=subprocess.PIPE,
                         env=env, start_new_session=True)
    obs.parent_pid = p.pid
    try:
        out, err = p.communicate(input=(o.get("_stdin") or "").encode(), timeout=o.get("_timeout", timeout))
    except subprocess.TimeoutExpired:
        import signal
        try:
            os.killpg(p.pid, signal.SIGKILL)      # the runner and the layer subprocesses it may be waiting for
        except OSError:
            p.kill()
        out, err = p.communicate()
        obs.timeout = True
    obs.exit = p.returncode
    obs.stdout = out.decode("utf-8", "replace")
    obs.stderr = err.decode("utf-8", "replace")
    if o.get("color"):
        obs.raw_stdout = obs.stdout
        obs.stdout = re.sub(r"\x1b\[[0-9;]*m", "", obs.stdout)
    load_trace(obs, trace)
    return obs


def load_trace(obs, trace):
    """fill obs.events / obs.procs from a trace file"""
    if os.path.exists(trace):
        with open(trace) as f:
            for line in f:
                line = line.strip()
                if line:
                    try:
                        obs.events.append(json.loads(line))
                    except ValueError:
                        pass
    for e in obs.events:
        pr = obs.procs.setdefault(e["pid"], {"resume": None, "events": []})
        if e["ev"] == "import":
            argv = e["argv"]
            if len(argv) >= 3 and argv[0] == "--resume-layer":
                pr["resume"] = (argv[1], int(argv[2]))
        else:
            pr["events"].append(e)
    for pr in obs.procs.values():
        pr["events"].sort(key=lambda e: e["seq"])
    return obs


# -------------------------------------------------------------------------------------------
# model side

def layer_name(world, li):
    lay = world["layers"][li]
    return UNIT_NAME if lay["kind"] == "unit" else lay["module"] + "." + lay["name"]


def flat_leaves(node, dlyr, out, dlvl=1):
    """(test id, effective layer, effective level): the nearest declaration on the way to the root wins"""
    if node["t"] == "leaf":
        out.append((node["id"], node["lyr"] if node.get("lyr") is not None else dlyr,
                    node["lvl"] if node.get("lvl") is not None else dlvl))
    else:
        l2 = node["lyr"] if node.get("lyr") is not None else dlyr
        v2 = node["lvl"] if node.get("lvl") is not None else dlvl
        for k in node["kids"]:
            flat_leaves(k, l2, out, v2)


def level_eligible(o):
    """the level predicate of an option vector (C09: at_level <= 0 means every level)"""
    if o.get("only_level") is not None:
        return lambda lvl: lvl == o["only_level"]
    if o.get("all"):
        return lambda lvl: True
    a = o.get("at_level")
    a = 1 if a is None else a
    return lambda lvl: a <= 0 or lvl <= a


def discovered_groups(world, accept=None, eligible=None, mod_accept=None):
    """tests_by_layer_name in insertion order, as discovery builds it: modules in sorted path order"""
    unit = next(i for i, l in enumerate(world["layers"]) if l["kind"] == "unit")
    order = sorted(world["modules"], key=lambda m: m.replace(".", "/") + ".py")
    # discovery walks directories: files of a directory before its sub-directories
    # (pre-order walk, directories and files sorted by name)
    order = sorted(world["modules"], key=lambda m: [(1, x) for x in m.split(".")[:-1]] + [(0, m.split(".")[-1])])
    groups = []
    index = {}
    nerr = 0
    for m in order:
        mod = world["modules"][m]
        if mod_accept is not None and not mod_accept(m):
            continue            # --module: a module the patterns reject is not even imported
        if mod.get("importError"):
            nerr += 1
            continue
        for s in mod["suites"]:
            leaves = []
            flat_leaves(s, unit, leaves)
            for tid, li, lvl in leaves:
                if eligible is not None and not eligible(lvl):
                    continue
                if accept is not None and not accept(tid):
                    continue
                if li not in index:
                    index[li] = len(groups)
                    groups.append([li, []])
                groups[index[li]][1].append(tid)
    return groups, nerr


def model_query(world, o, groups, resume=None, child_bad=(), import_errors=0):
    tests = {t["id"]: t for t in world["tests"]}
    names = [[ord(c) for c in layer_name(world, i)] for i in range(len(world["layers"]))]
    unit = next((i for i, l in enumerate(world["layers"]) if l["kind"] == "unit"), len(world["layers"]) + 5)

    def tj(t):
        return {k: t[k] for k in ("id", "count", "decoSkip", "expectFail", "setUp", "subs", "body", "tearDown",
                                  "cleanups")}
    return {
        "op": "world",
        "bases": [l["bases"] for l in world["layers"]], "names": names, "unit": unit,
        "info": [[l["setUp"], l["tearDown"], l["testSetUp"], l["testTearDown"]] for l in world["layers"]],
        "setUpRaises": [l["setUpRaises"] for l in world["layers"]],
        "tearDownFaults": [l["tearDownFaults"] for l in world["layers"]],
        "groups": [[li, [tj(tests[t]) for t in ts]] for li, ts in groups],
        "importErrors": import_errors,
        "repeat": o.get("repeat", 1), "stopOnError": bool(o.get("stopOnError")), "buffer": bool(o.get("buffer")),
        "processes": o.get("processes", 1), "resume": resume, "childBad": list(child_bad),
    }


# -------------------------------------------------------------------------------------------
# projections of real traces onto the model's event vocabulary

def real_events(world, events):
    """trace file events of one process -> model-style events"""
    out = []
    for e in events:
        k = e["ev"]
        if k == "lsu":
            out.append(["lsu", e["l"], e["ok"]])
        elif k == "ltd":
            out.append(["ltd", e["l"], e["r"]])
        elif k == "tsu":
            out.append(["tsu", e["l"], not any(e["cap"]) and e.get("own", True)])
        elif k == "ttd":
            out.append(["ttd", e["l"], not any(e["cap"]) and e.get("own", True)])
        elif k == "ph":
            out.append(["ph", e["t"], e["ph"]])
        elif k in ("tstart", "tend"):
            out.append([k, e["t"]])
    return out


# the plain formatter writes "... errors and N skipped", the colourising one "... errors, N skipped"
SUMMARY_RE = re.compile(r"Ran (\d+) tests with (\d+) failures, (\d+) errors(?: and|,) (\d+) skipped")
TOTAL_RE = re.compile(r"Total: (\d+) tests, (\d+) failures, (\d+) errors(?: and|,) (\d+) skipped")
RUNNING_RE = re.compile(r"^Running (\S*) tests:", re.M)


def parse_output(text):
    res = {"summaries": [tuple(map(int, m.groups())) for m in SUMMARY_RE.finditer(text)],
           "total": None, "headers": RUNNING_RE.findall(text), "fail_names": [], "err_names": []}
    m = TOTAL_RE.search(text)
    if m:
        res["total"] = tuple(map(int, m.groups()))
    lines = text.split("\n")
    mode = None
    for ln in lines:
        if ln.startswith("Tests with errors:"):
            mode = "err"
        elif ln.startswith("Tests with failures:"):
            mode = "fail"
        elif mode and ln.startswith("   "):
            res[mode + "_names"].append(ln.strip())
        elif ln.strip() == "":
            continue
        else:
            mode = None
    return res


def model_events(trace, kinds):
    return [e for e in trace if e[0] in kinds]
