"""Option parsing is a function of the arguments: nothing of an earlier get_options() call in the same process (an
embedding program, the runner's own tests, a second run_internal) may show in a later one.  For pairs of argument
vectors (A, B) a worker process parses A then B; another fresh worker parses B alone; the two results for B are
compared on the option fields the property of the calling check depends on."""
import json
import os
import subprocess
import sys

from harness import common

WORKER = r"""
import contextlib, io, json, sys
from zope.testrunner.options import get_options
vectors = json.loads(sys.stdin.read())
out = []
for v in vectors:
    try:
        with contextlib.redirect_stdout(io.StringIO()), contextlib.redirect_stderr(io.StringIO()):
            o = get_options(["prog"] + v, [])
        d = {}
        for k, val in vars(o).items():
            if isinstance(val, (str, int, float, bool, type(None))):
                d[k] = val
            elif isinstance(val, (list, tuple)):
                d[k] = [x if isinstance(x, (str, int, float, bool, type(None))) else repr(type(x)) for x in val]
            elif isinstance(val, dict):
                d[k] = sorted(map(str, val))
        out.append(d)
    except SystemExit as e:
        out.append({"_exit": str(e.code)})
print(json.dumps(out))
"""

FIELDS = {
    "C03": ["test", "module", "layer", "unit", "non_unit", "at_level", "only_level", "repeat", "list_tests"],
    "C06": ["processes", "verbose"],
    "C08": ["test", "module", "layer"],
    "C09": ["layer", "unit", "non_unit", "at_level", "only_level"],
    "C11": ["shuffle", "shuffle_seed"],
    "C12": ["verbose", "repeat"],
    "C13": ["buffer"],
    "C14": ["path", "test_path", "package", "tests_pattern", "test_file_pattern", "ignore_dir", "usecompiled", "module"],
    "C15": ["ignore_dir", "keepbytecode", "usecompiled", "test_path"],
    "C16": ["stop_on_error", "repeat"],
    "C17": ["xmlOutput"],
    "C18": ["gc", "gc_option", "post_mortem", "buffer"],
    "C19": ["ignore_new_threads"],
}


def _run(vectors, timeout=120):
    p = subprocess.run([common.PY, "-c", WORKER], input=json.dumps(vectors).encode(), stdout=subprocess.PIPE,
                       stderr=subprocess.PIPE, timeout=timeout, cwd=os.path.dirname(common.VERIF) or "/")
    return json.loads(p.stdout.decode().strip().split("\n")[-1])


def rich_vector(tmp):
    d1, d2 = os.path.join(tmp, "og_a"), os.path.join(tmp, "og_b")
    for d in (d1, d2):
        os.makedirs(d, exist_ok=True)
    return ["-t", "alpha", "-t", "!beta", "-m", "mod", "--layer", "L1", "--layer", "!L2", "--ignore_dir", "build",
            "--ignore-new-thread", "^pool-", "--ignore-new-thread", "leak", "--path", d1, "--test-path", d2, "-s", "pk",
            "--gc", "5", "--gc", "7", "-G", "DEBUG_STATS", "--at-level", "3", "-j", "2", "--shuffle", "--shuffle-seed", "5",
            "--buffer", "-x", "--repeat", "2", "-k", "--tests-pattern", "^ftests$", "--test-file-pattern", "^t_",
            "--xml", os.path.join(tmp, "og_xml"), "-vv", "-f"]


def stateless(ctx, prop):
    """the check of `prop` calls this once per run"""
    fields = FIELDS.get(prop)
    if not fields:
        return
    rich = rich_vector(ctx.tmp)
    plain = []
    other = ["-t", "gamma", "--layer", "L3", "--ignore_dir", "dist", "--ignore-new-thread", "x", "-u", "--only-level", "2",
             "--gc", "9", "-G", "DEBUG_LEAK", "--usecompiled", "-s", "other"]
    for a, b in ((rich, plain), (rich, other), (other, rich), (rich, rich)):
        try:
            second = _run([a, b])[1]
            alone = _run([b])[0]
        except Exception as e:  # noqa: BLE001
            ctx.notes.append("option statelessness worker failed: %s" % e)
            return
        ctx.count(("optglue", prop, len(a), len(b)), nontrivial=True, sample=None)
        ctx.bump("options-after-an-earlier-parse")
        diff = {f: (alone.get(f), second.get(f)) for f in fields if alone.get(f) != second.get(f)}
        if diff or ("_exit" in second) != ("_exit" in alone):
            ctx.violation("get_options(%r) after an earlier get_options(%r) in the same process differs from the same call in "
                          "a fresh process: %r (field: (fresh, after))" % (b, a, diff or second), {"first": a, "second": b,
                                                                                                  "fresh": alone, "after": second},
                          signature="options-carry-over")
            return
