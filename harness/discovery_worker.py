"""Worker of the C14 correspondence for `-s/--package` cases (importing packages must not leak into the harness
process): reads {"args": [...]} from stdin, sets sys.path up the way `Find.global_setup` does, and prints the
files the real `find_test_files` yields together with the directories (`__path__`) of the named packages."""
import contextlib
import io
import json
import os
import sys


def main():
    case = json.loads(sys.stdin.read())
    from zope.testrunner.find import find_test_files, import_name
    from zope.testrunner.options import get_options
    with contextlib.redirect_stdout(io.StringIO()):
        options = get_options(["prog"] + case["args"], [])
    for path in reversed(options.path):
        if path not in sys.path:
            sys.path.insert(0, path)
    out = {}
    try:
        out["pkg_dirs"] = [[os.path.abspath(p) for p in import_name(name).__path__] for name in (options.package or [])]
        out["package"] = list(options.package or [])
        out["files"] = [[f, pkg] for f, pkg in find_test_files(options)]
    except BaseException as e:  # noqa: BLE001
        out["error"] = "%s: %s" % (type(e).__name__, e)
    json.dump(out, sys.stdout)


if __name__ == "__main__":
    main()
