"""Worker: two runs of the real runner in ONE process (an embedding program, a test of the runner itself): the second
run uses a world whose layers have the same dotted names as the first one's but are different objects.  Reads
{"runs": [{"dir", "args", "trace"}, ...]} from stdin; prints {"runs": [{"failed", "exc", "stdout"}]}."""
import contextlib
import io
import json
import os
import sys


def purge(d):
    for name, mod in list(sys.modules.items()):
        f = getattr(mod, "__file__", None) or ""
        if f.startswith(d + os.sep):
            del sys.modules[name]
    sys.path[:] = [p for p in sys.path if p != d]


def main():
    case = json.loads(sys.stdin.read())
    from zope.testrunner import run_internal
    out = []
    for r in case["runs"]:
        os.environ["ZTR_TRACE"] = r["trace"]
        os.chdir(r["dir"])
        buf = io.StringIO()
        exc = None
        failed = None
        try:
            with contextlib.redirect_stdout(buf):
                failed = run_internal([], [os.path.join(r["dir"], "ztr_run.py")] + r["args"])
        except BaseException as e:  # noqa: BLE001
            exc = "%s: %s" % (type(e).__name__, e)
        out.append({"failed": failed, "exc": exc, "stdout": buf.getvalue(), "pid": os.getpid(),
                    "streams_ok": sys.stdout is sys.__stdout__ or type(sys.stdout).__name__ != "BufferedStandardStream"})
        if not r.get("keep"):
            purge(r["dir"])
    json.dump({"runs": out}, sys.stdout)


if __name__ == "__main__":
    main()
