"""Correspondence of the runner-level model (Model/Runner + Result + Proto + Layers) with real runs of
generated test worlds, and the monitors of the runner-level properties evaluated on the real traces.

Used by the per-property front ends (corr_c01.py, …): each chooses a world/option generator, the
projection of the trace it compares, and its monitor.
"""
import concurrent.futures
import os
import shutil

from harness import worlds

LAYER_EVS = ("lsu", "ltd")
HOOK_EVS = ("tsu", "ttd")
PHASE_EVS = ("ph",)


class Case:
    def __init__(self, world, opts, label=""):
        self.world = world
        self.opts = opts
        self.label = label
        self.obs = None
        self.groups = None
        self.import_errors = 0
        self.parent_model = None
        self.child_models = {}     # (layer idx, number) -> model answer
        self.parsed = None

    def replay_obj(self):
        return {"world": self.world, "opts": self.opts, "label": self.label}


def statement_accept(pats):
    """the C08 sentence, evaluated pattern by pattern (each pattern compiled on its own, search mode):
    selected iff some positive pattern matches (or only '!'-patterns were given) and no '!'-pattern matches"""
    import re
    pos = [re.compile(p) for p in pats if not p.startswith("!")]
    neg = [re.compile(p[1:]) for p in pats if p.startswith("!")]
    return lambda name: bool((any(r.search(name) for r in pos) or (not pos and bool(neg)))
                             and not any(r.search(name) for r in neg))


def corpus_cases(prop, kind="world"):
    """the inputs that once exposed a defect (corpus/<prop>/*.json), run before the generated ones"""
    import glob
    import json
    from harness import common
    out = []
    for f in sorted(glob.glob(os.path.join(common.VERIF, "corpus", prop, "*.json"))):
        try:
            c = json.load(open(f))
        except ValueError:
            continue
        if c.get("type") != kind:
            continue
        if kind == "world":
            out.append(Case(c["world"], c["opts"], c.get("label", "")))
        else:
            out.append(c)
    return out


def accept_for(opts):
    pats = opts.get("test") or []
    if not pats:
        return None
    f = statement_accept(pats)
    return lambda tid, tests=None: f("t%d (x)" % tid)


def layer_filter(world, opts, groups):
    """Filter.global_setup on the discovered groups, as the statements of C08/C09 say"""
    names = {li: worlds.layer_name(world, li) for li, _ in groups}
    unit, non_unit = opts.get("unit"), opts.get("non_unit")
    if unit and non_unit:
        unit = non_unit = False
    pats = list(opts.get("layer") or [])
    if unit:
        pats = [r"^zope\.testrunner\.layer\.UnitTests$"]
    acc = statement_accept(pats) if pats else None
    out = []
    for li, ts in groups:
        n = names[li]
        if n == worlds.UNIT_NAME and non_unit:
            continue
        if acc is not None and not acc(n):
            continue
        out.append([li, ts])
    return out


def run_real_cases(ctx, cases, workers=12, list_first=False):
    def one(i_case):
        i, c = i_case
        d = os.path.join(ctx.tmp, "w%05d" % i)
        worlds.materialize(c.world, d)
        if c.opts.get("shuffle_seed") is not None or list_first:
            lo = dict(c.opts)
            lo["list"] = True
            lo["processes"] = 1
            c.listing = worlds.run_real(c.world, lo, d)
        c.obs = worlds.run_real(c.world, c.opts, d)
        c.dir = d
        shutil.rmtree(d, ignore_errors=True)
        return c
    with concurrent.futures.ThreadPoolExecutor(max_workers=workers) as ex:
        list(ex.map(one, enumerate(cases)))


def listing_groups(world, text):
    """parse --list-tests output into [[layer idx, [test ids]]]"""
    import re
    names = {worlds.layer_name(world, i): i for i in range(len(world["layers"]))}
    groups = []
    for line in text.split("\n"):
        m = re.match(r"Listing (\S+) tests:", line)
        if m:
            groups.append([names.get(m.group(1), -1), []])
        else:
            m = re.match(r"\s+t(\d+) \(", line)
            if m and groups:
                groups[-1][1].append(int(m.group(1)))
    return groups


def compute_groups(c):
    acc = accept_for(c.opts)
    groups, nerr = worlds.discovered_groups(c.world, accept=(lambda t: acc(t)) if acc else None,
                                            eligible=worlds.level_eligible(c.opts),
                                            mod_accept=statement_accept(list(c.opts["modpat"])) if c.opts.get("modpat") else None)
    c.import_errors = nerr
    if c.opts.get("shuffle_seed") is not None and getattr(c, "listing", None) is not None:
        # the order inside each layer comes from the real listing (C11 ties the shuffle itself)
        lg = {li: ts for li, ts in listing_groups(c.world, c.listing.stdout)}
        groups = [[li, lg.get(li, ts) if sorted(lg.get(li, ts)) == sorted(ts) else ts] for li, ts in groups]
    c.groups = layer_filter(c.world, c.opts, groups)


def run_models(ctx, cases):
    for c in cases:
        compute_groups(c)
    q = [worlds.model_query(c.world, c.opts, c.groups, import_errors=c.import_errors) for c in cases]
    parents = ctx.driver.batch(q)
    # children
    cq = []
    cidx = []
    for ci, (c, ans) in enumerate(zip(cases, parents)):
        c.parent_model = ans
        if "error" in ans:
            continue
        for ev in ans["trace"]:
            if ev[0] == "spawn":
                cq.append(worlds.model_query(c.world, c.opts, c.groups, resume=[ev[1], ev[2]],
                                             import_errors=c.import_errors))
                cidx.append((ci, ev[1], ev[2]))
    children = ctx.driver.batch(cq) if cq else []
    for (ci, l, n), ans in zip(cidx, children):
        cases[ci].child_models[(l, n)] = ans
    # stop-on-error in a sequential resumed run depends on which children report failures
    rq = []
    ridx = []
    for ci, c in enumerate(cases):
        if c.opts.get("stopOnError") and c.opts.get("processes", 1) == 1 and c.child_models:
            bad = [l for (l, n), a in c.child_models.items() if a.get("failed")]
            rq.append(worlds.model_query(c.world, c.opts, c.groups, child_bad=bad, import_errors=c.import_errors))
            ridx.append(ci)
    for ci, ans in zip(ridx, ctx.driver.batch(rq) if rq else []):
        c = cases[ci]
        c.parent_model = ans
        spawned = {(e[1], e[2]) for e in ans["trace"] if e[0] == "spawn"}
        c.child_models = {k: v for k, v in c.child_models.items() if k in spawned}


def real_processes(c):
    """-> (parent real events, {(layer idx, number): real events}) in model vocabulary"""
    names = {worlds.layer_name(c.world, i): i for i in range(len(c.world["layers"]))}
    parent = []
    children = {}
    for pid, pr in c.obs.procs.items():
        evs = worlds.real_events(c.world, pr["events"])
        if pr["resume"] is None:
            if pid == c.obs.parent_pid:
                parent = evs
            else:
                children[("?", pid)] = evs
        else:
            children[(names.get(pr["resume"][0], -1), pr["resume"][1])] = evs
    return parent, children


def compare_traces(ctx, c, kinds, component):
    """model == real on the projection `kinds`, process by process.  Returns True when equal."""
    pm = c.parent_model
    if "error" in pm:
        ctx.drift(component, "driver error %s" % pm["error"], c.replay_obj())
        return False
    parent, children = real_processes(c)
    want = worlds.model_events(pm["trace"], kinds)
    got = [e for e in parent if e[0] in kinds]
    if want != got:
        k = next((i for i, (a, b) in enumerate(zip(want, got)) if a != b), min(len(want), len(got)))
        ctx.drift(component, "parent process: first difference at event %d: model %r real %r (opts %r)" % (
            k, want[k:k + 3], got[k:k + 3], {k2: v for k2, v in c.opts.items() if v}), c.replay_obj())
        return False
    spawned = sorted(c.child_models)
    real_children = sorted(k for k in children)
    if spawned != real_children:
        ctx.drift(component, "children: model spawns %r, real children %r" % (spawned, real_children),
                  c.replay_obj())
        return False
    for key in spawned:
        cm = c.child_models[key]
        if "error" in cm:
            ctx.drift(component, "driver error %s" % cm["error"], c.replay_obj())
            return False
        want = worlds.model_events(cm["trace"], kinds)
        got = [e for e in children[key] if e[0] in kinds]
        if want != got:
            k = next((i for i, (a, b) in enumerate(zip(want, got)) if a != b), min(len(want), len(got)))
            ctx.drift(component, "child %r: first difference at event %d: model %r real %r" % (
                key, k, want[k:k + 3], got[k:k + 3]), c.replay_obj())
            return False
    return True


def run_order_violation(c, strict=False):
    """C10 on a real sequential run (parent + resumed children run one after another): the order in which the
    layers' tests actually execute — across all processes, in trace-file order — is the order of the model
    (order_by_bases over the selected layers: parent's layers, then the resumed ones in spawn order)."""
    if c.opts.get("processes", 1) != 1 or c.parent_model is None or "error" in c.parent_model:
        return None
    tests = {t["id"]: t for t in c.world["tests"]}
    real = []
    for e in c.obs.events:
        if e.get("ev") == "tstart":
            li = tests[e["t"]]["layer"]
            if li not in real:
                real.append(li)
    want = []
    for ev in c.parent_model["trace"]:
        if ev[0] in ("header", "spawn") and ev[1] not in want:
            want.append(ev[1])
    if strict and [l for l in want if l not in real]:
        # (fault-free worlds in which every layer has tests: each layer of the order must have run)
        return "layers %r of the layer order %r never executed their tests (executed: %r)" % (
            [l for l in want if l not in real], want, real)
    want = [l for l in want if l in real]
    if real != want:
        return "layers executed their tests in the order %r, the layer order is %r" % (real, want)
    return None


def model_totals(c):
    """(ran, failures, errors, skipped, failed) as the parent reports them, from the model"""
    pm = c.parent_model
    ran = pm["ran"]
    nfail = len(pm["failures"])
    # ["child", l] entries only mark "the child of layer l reported failures/errors" for the parent's
    # stop-on-error decision; what the child reported is added from its own model below
    nerr = len([e for e in pm["errors"] if not (isinstance(e, list) and e and e[0] == "child")])
    skipped = pm["skipped"]
    failed = pm["failed"]
    for key, cm in c.child_models.items():
        ran += cm["ran"]
        nfail += len(cm["failures"])
        nerr += len(cm["errors"])
        failed = failed or cm["failed"]
    return ran, nfail, nerr + c.import_errors, skipped, failed


def sane_run(ctx, c, prop):
    """the run itself must have worked (no timeout, no traceback of the runner)"""
    if c.obs.timeout:
        ctx.violation("the run did not terminate within the time limit", c.replay_obj(), signature="timeout")
        return False
    return True


def runner_crash(c):
    """a traceback of the runner itself (not of a test) in the output of the run: its last line, or None"""
    for stream in (c.obs.stderr, c.obs.stdout):
        if "Traceback (most recent call last)" in stream:
            for b in stream.split("Traceback (most recent call last)")[1:]:
                if "zope/testrunner/__init__.py" in b and "run_internal" in b:
                    return b.strip().split("\n")[-1][:200]
    return None


def describe(c):
    w = c.world
    return {"layers": len(w["layers"]), "tests": len(w["tests"]),
            "opts": {k: v for k, v in c.opts.items() if v not in (None, False, [], 1) or k == "verbose"},
            "kinds": sorted({t["kind"] for t in w["tests"]})[:6]}


def standard_check(ctx, cases, prop, kinds, component, monitor, extra=None, list_first=False):
    """run real + model, evaluate `monitor(case) -> None | (description, signature)`, then compare the
    projection `kinds`; `extra(ctx, case)` may add further comparisons."""
    run_real_cases(ctx, cases, list_first=list_first)
    standard_check_after_real(ctx, cases, prop, kinds, component, monitor, extra)


def standard_check_after_real(ctx, cases, prop, kinds, component, monitor, extra=None):
    run_models(ctx, cases)
    for c in cases:
        d = describe(c)
        ctx.count(c.replay_obj(), nontrivial=len(c.world["tests"]) >= 2, sample=d)
        ctx.bump("layers=%d" % len(c.world["layers"]))
        ctx.bump("processes=%d" % max(1, len(c.obs.procs)))
        for t in c.world["tests"]:
            ctx.bump("kind:" + t["kind"])
        for k in ("repeat", "stopOnError", "processes", "shuffle_seed", "layer", "buffer", "test"):
            if c.opts.get(k) not in (None, False, [], 1):
                ctx.bump("opt:" + k)
        if not sane_run(ctx, c, prop):
            continue
        bad = monitor(c)
        if bad:
            desc, sig = bad
            ctx.violation(desc + " (opts %r)" % d["opts"], c.replay_obj(), signature=sig)
            if not sig.startswith("known:"):
                continue
        if c.opts.get("post_mortem"):
            # -D runs tests through test.debug(): another protocol than the model's; decided by the monitors alone
            ctx.bump("post-mortem-monitor-only")
            continue
        if stateful(c.world) and c.opts.get("repeat", 1) > 1:
            # outcomes that depend on state surviving the iterations: the model repeats one script per test;
            # such runs are decided by the monitors alone
            ctx.bump("stateful-monitor-only")
            continue
        if not compare_traces(ctx, c, kinds, component):
            continue
        ro = run_order_violation(c)
        if ro:
            ctx.violation(ro + " (opts %r)" % d["opts"], c.replay_obj(), signature="layer-run-order")
            continue
        if extra:
            extra(ctx, c)


def run_in_process(ctx, runs, tag="ip", timeout=180, same_dir=False):
    """runs = [(world, opts), ...]: all of them one after another in ONE fresh process (an embedding program, the
    runner's own tests), each under contextlib.redirect_stdout(io.StringIO()) - twice_worker.py.  Returns one Obs per
    run (stdout, exit 0/1 from the returned verdict, trace events), or None when the worker itself failed."""
    import json
    import subprocess
    from harness import common
    ctx._ip_counter = getattr(ctx, "_ip_counter", 0) + 1
    dirs = []
    specs = []
    for k, (w, o) in enumerate(runs):
        if same_dir and k > 0:
            # the same world once more, in the same process, nothing re-imported: the very same test and layer objects
            d = dirs[0]
            specs[-1]["keep"] = True
            specs.append({"dir": d, "args": worlds.cli_args(d, o)[2:], "trace": os.path.join(d, "trace%d.jsonl" % k)})
            continue
        d = os.path.join(ctx.tmp, "%s%05d_%d" % (tag, ctx._ip_counter, k))
        worlds.materialize(w, d)
        dirs.append(d)
        specs.append({"dir": d, "args": worlds.cli_args(d, o)[2:], "trace": os.path.join(d, "trace.jsonl")})
    env = dict(os.environ)
    env["PYTHONHASHSEED"] = "0"
    try:
        p = subprocess.run([common.PY, os.path.join(common.VERIF, "harness", "twice_worker.py")],
                           input=json.dumps({"runs": specs}).encode(), env=env, stdout=subprocess.PIPE,
                           stderr=subprocess.PIPE, timeout=timeout)
        res = json.loads(p.stdout.decode().strip().split("\n")[-1])["runs"]
    except Exception as e:  # noqa: BLE001
        for d in dirs:
            shutil.rmtree(d, ignore_errors=True)
        return None, "%s: %s" % (type(e).__name__, str(e)[-300:])
    out = []
    for spec, r in zip(specs, res):
        obs = worlds.Obs()
        obs.stdout = r["stdout"]
        obs.exit = 1 if r["failed"] else 0
        obs.timeout = False
        obs.exc = r["exc"]
        if r["exc"]:
            obs.stderr = "Traceback (most recent call last): " + r["exc"]
        worlds.load_trace(obs, spec["trace"])
        obs.parent_pid = r.get("pid") or next(iter(obs.procs), None)
        out.append(obs)
    for d in dirs:
        shutil.rmtree(d, ignore_errors=True)
    return out, None


def same_world_twice(ctx, prop, n=2):
    """a run is a function of the tests and the options: the same (calm) world run twice in one process - nothing
    re-imported, the very same test and layer objects, whatever the first run left in module-level tables - gives the same
    verdict, the same per-layer summaries and totals and the same lists of failing tests.  Called once by the checks of the
    properties that speak about what a run executes and reports."""
    import random
    rng = random.Random(ctx.seed * 31 + sum(map(ord, prop)))
    for i in range(n):
        w = worlds.gen_world(rng, n_layers=rng.choice([2, 3]), tests_per_layer=(1, 3),
                             kinds=["pass", "pass", "fail", "error", "skipBody", "subFail2", "skipDeco"], p_fault=0.0, p_write=0.2)
        for l in w["layers"]:
            for k_ in ("slowSetUp", "slowTearDown", "falsy"):
                l.pop(k_, None)
        for t in w["tests"]:
            for k_ in ("rebind", "ownstream", "label", "doctest"):
                t.pop(k_, None)
            for p_ in parts_of(t):
                p_.pop("close", None)
        w.pop("sysPathObject", None)
        o = {"verbose": 1}
        if prop in ("C13", "C04", "C16") and i % 2 == 0:
            o["buffer"] = True
        if prop == "C16":
            o["stopOnError"] = True
        if prop in ("C12", "C03") and i % 2 == 1:
            o["repeat"] = 2
        res, err = run_in_process(ctx, [(w, o), (w, o)], tag="twice" + prop, same_dir=True)
        ctx.count(("same-world-twice", prop, i), nontrivial=True, sample=None)
        ctx.bump("same-world-twice-in-one-process")
        if res is None:
            ctx.notes.append("same-world-twice worker failed: %s" % err)
            continue
        a, b = res
        pa, pb = worlds.parse_output(a.stdout), worlds.parse_output(b.stdout)
        diffs = []
        if a.exit != b.exit or a.exc != b.exc:
            diffs.append("verdict %r/%r then %r/%r" % (a.exit, a.exc, b.exit, b.exc))
        for key in ("summaries", "total", "fail_names", "err_names"):
            if pa[key] != pb[key]:
                diffs.append("%s %r then %r" % (key, pa[key], pb[key]))
        na = sorted(e["t"] for e in a.events if e.get("ev") == "tstart")
        nb = sorted(e["t"] for e in b.events if e.get("ev") == "tstart")
        if na != nb:
            diffs.append("tests started %r then %r" % (na, nb))
        if diffs:
            ctx.violation("the same world run twice in one process gives two different runs: " + "; ".join(diffs)[:600],
                          {"world": w, "opts": o, "second_stdout": b.stdout[-1500:]}, signature="second-run-differs")


def replay_case(obj):
    case = obj.get("case", {})
    if "world" not in case:
        return None
    return Case(case["world"], case["opts"], case.get("label", ""))


def test_ops(ctx, world):
    """unittest call sequences of every test of a world, from the model's Proto"""
    def tj(t):
        d = {k: t[k] for k in ("id", "count", "decoSkip", "expectFail", "setUp", "subs", "body", "tearDown", "cleanups")}
        d["op"] = "proto"
        return d
    ans = ctx.driver.batch([tj(t) for t in world["tests"]])
    ops = {t["id"]: a["ops"] for t, a in zip(world["tests"], ans)}
    # tests with parts that raise only the first time they run in a process: the calm variant for later runs
    flaky = [t for t in world["tests"] if is_flaky(t)]
    if flaky:
        calm = ctx.driver.batch([tj(calm_variant(t)) for t in flaky])
        for t, a in zip(flaky, calm):
            ops[(t["id"], "calm")] = a["ops"]
    return ops


def parts_of(t):
    return [t["setUp"], t["body"], t["tearDown"]] + list(t["subs"]) + list(t["cleanups"])


def is_flaky(t):
    return any(p.get("once") and p.get("exc") for p in parts_of(t))


def calm_variant(t):
    import copy
    c = copy.deepcopy(t)
    for p in parts_of(c):
        if p.get("once"):
            p["exc"] = None
    return c


def stateful(world):
    return any(is_flaky(t) for t in world["tests"])
