"""C07 — correspondence of Model/Channel with SubProcess.report (child) and the stderr parser of
spawn_layer_in_subprocess (parent, driven through a fake Popen); monitor = the property's sentences."""
import contextlib
import io
import sys
import threading
import types

from harness import fakeproc

PROP = "C07"
LEAN_MODULE = "Ztr.Props.C07"
THEOREMS = [
    "Ztr.Channel.C07_roundtrip", "Ztr.Channel.C07_truncation", "Ztr.Channel.C07_spawn_failure",
    "Ztr.Channel.C07_noise_after", "Ztr.Channel.C07_no_report", "Ztr.Channel.C07_never_crash", "Ztr.Channel.C07_spoof_witness", "Ztr.Channel.splitLines_joinLines",
    "Ztr.Channel.parseNat_renderNat",
]
RULE = ("child stderr byte strings: (noise lines) + report(ran, failing names, erroring names) + (noise), names over "
        "ASCII / unicode / embedded newlines and carriage returns / surrounding whitespace / 10 kB / header look-alikes; "
        "every byte offset of truncation for small reports, random offsets for large ones; header look-alike and "
        "unterminated noise; random bytes; spawn failure. Each string goes through the real spawn_layer_in_subprocess "
        "with a fake Popen. Non-trivial = report with >= 1 name or a truncation; distinct by the byte string")
ASSUMPTIONS = [
    "pipe EOF on child death and the reaping of the child are OS behaviour (sampled by real-crash runs in C02, not proved)",
    "names that are not valid UTF-8 (a child whose stderr is not UTF-8) are recorded with U+FFFD replacements; 'exactly the names' is claimed for valid UTF-8",
]
TRUSTED = ["CPython bytes.split/strip/int()/decode (validated by the correspondence)"]

NAME_POOL = [
    "test_a (m.T.test_a)", "tëst_ü (m.T)", "漢字 (m.T)", "emoji \U0001f600 (m.T)", "a\nb", "multi\nline\nname",
    "  padded  ", "\x1cfs-padded\x1f", "\xa0nbsp\xa0", "cr\rinside", "tab\tinside", "1 0 0", "3 1 1", "",
    "x" * 10000, "Layer: m.L.setUp", "subTest (i=1) [a\rb]", "trailing-cr\r", " ls x",
]


class Named:
    def __init__(self, s):
        self.s = s

    def __str__(self):
        return self.s


def real_child_report(ran, fails, errs):
    """bytes written by the real SubProcess.report"""
    from zope.testrunner import process
    raw = io.BytesIO()
    err = io.TextIOWrapper(raw, encoding="utf-8", errors="backslashreplace", newline="\n", write_through=True)
    rn = types.SimpleNamespace(ran=ran, failures=[(Named(n), None) for n in fails],
                               errors=[(Named(n), None) for n in errs],
                               options=types.SimpleNamespace(resume_layer="x", processes=2))
    feat = process.SubProcess(rn)
    feat.original_stderr = err
    old = sys.stdout
    sys.stdout = io.StringIO()
    try:
        feat.report()
    finally:
        sys.stdout = old
    return raw.getvalue()


def real_parent(stderr, spawn_error=False, verbose=0, hold=None, wait=20):
    """Run the real parent on a scripted child.  Returns canonical outcome dict."""
    from zope.testrunner import runner
    out = io.StringIO()
    options = types.SimpleNamespace(
        output=None, testrunner_defaults=[], original_testrunner_args=["prog"], verbose=verbose,
        shuffle=False, shuffle_seed=None)
    from zope.testrunner.formatter import OutputFormatter
    options.progress = False
    options.resume_layer = None
    options.processes = 2
    options.output = OutputFormatter(options)
    fake = fakeproc.FakePopen({"stdout": b"", "stderr": stderr, "spawn_error": spawn_error, "hold_stderr_open": hold})
    result = fakeproc.SinkResult()
    failures, errors = [], []
    exc = []

    def target():
        try:
            with fakeproc.patched_popen(fake):
                runner.spawn_layer_in_subprocess(result, ["-m", "zope.testrunner"], options, [], "m.L", object(),
                                                 failures, errors, [], 1)
        except BaseException as e:  # noqa: BLE001
            exc.append(e)

    with contextlib.redirect_stdout(out):
        t = threading.Thread(target=target)
        t.start()
        t.join(wait)
    hung = t.is_alive()
    comm = [e for e in errors if e[0] == "subprocess for m.L"]
    other_errors = [e[0] for e in errors if e[0] != "subprocess for m.L"]
    if hung:
        kind = "hang"
    elif exc:
        kind = "crash"
    elif comm:
        kind = "commError"
    else:
        kind = "ok"
    return {"kind": kind, "ran": result.num_ran, "fails": [f[0] for f in failures], "errs": other_errors,
            "exc": repr(exc[0]) if exc else None, "done": result.done, "n_comm": len(comm)}


def squash(s):
    return " ".join(s.strip().split("\n"))


def gen_report(rng, small=False):
    nf = rng.choice([0, 0, 1, 2, 3]) if small else rng.choice([0, 1, 2, 5, 40, 600])
    ne = rng.choice([0, 0, 1, 2]) if small else rng.choice([0, 1, 3, 30, 400])
    pool = [n for n in NAME_POOL if len(n) < 100] if small else NAME_POOL
    fails = [rng.choice(pool) for _ in range(nf)]
    errs = [rng.choice(pool) for _ in range(ne)]
    ran = rng.choice([0, 1, 7, 10, 12, 100, 3000, 12345678901234567890])
    if rng.random() < 0.6:
        # (not always: failing sub-tests, layer hooks and --repeat make failures + errors exceed the tests run)
        ran += nf + ne
    return ran, fails, errs


NOISE_LINES = [b"warning: something", b"", b"   ", b"\xff\xfe binary \x00", b"Traceback (most recent call last):",
               b"1 2", b"1 2 3 4", b"a b c", b"1.0 0 0", b"0x1 0 0", b"\xd9\xa1 0 0", b"1 0 zero", b"x" * 5000,
               b"cr\rinside", b"- 1 0", b"store: entries hits misses 3 0 0", b"x 1 2 3", b"2026 09 29 3 0 0 worker", b"3 0 0 0"]
SPOOF_LINES = [b"1 0 0", b"+1 0 0", b"1_0 0 0", b" 7 0 0 ", b"0 1 1", b"5 -1 0", b"\t3\t0\t0", b"1 0 0\r"]


def expected(pre, report, post, cut, spawn_error):
    """What the property demands.  Returns ('ok', ran, fails, errs) / ('commError',) / ('finding', why)."""
    ran, fails, errs = report
    if spawn_error:
        return ("commError",)
    if cut is not None:
        # the only cut report that may be used is the complete names-free report without its final newline
        if not fails and not errs and not post and cut == len(real_child_report(ran, fails, errs)) - 1:
            return ("ok", ran, [], [])
        return ("commError",)
    return ("ok", ran, [squash(n) for n in fails], [squash(n) for n in errs])


def run(ctx):
    rng = ctx.rng
    cases = []   # (label, pre(bytes), report tuple or None, post(bytes), cut offset or None, spawn_error, spoofed)
    # 1. plain reports, all truncation offsets for small ones
    for _ in range(12 if ctx.quick() else 150):
        rep = gen_report(rng, small=True)
        data = real_child_report(*rep)
        cases.append(("full", b"", rep, b"", None, False, False))
        offsets = range(len(data)) if len(data) < 400 else rng.sample(range(len(data)), 300)
        for off in offsets:
            cases.append(("cut", b"", rep, b"", off, False, False))
    # 2. large reports with noise before/after (non-spoofing, newline-terminated), random cuts
    for _ in range(25 if ctx.quick() else 500):
        rep = gen_report(rng)
        pre = b"".join(rng.choice(NOISE_LINES) + b"\n" for _ in range(rng.choice([0, 1, 3, 50])))
        post = b"".join(rng.choice(NOISE_LINES + SPOOF_LINES) + rng.choice([b"\n", b"\n", b""])
                        for _ in range(rng.choice([0, 0, 1, 4])))
        cases.append(("noise", pre, rep, post, None, False, False))
        data = real_child_report(*rep)
        for off in rng.sample(range(len(data)), min(len(data), 6)):
            cases.append(("noise-cut", pre, rep, b"", off, False, False))
    # 3. spoofing / glued noise before the report (known finding D10)
    for sp in SPOOF_LINES:
        rep = gen_report(rng, small=True)
        cases.append(("spoof", sp + b"\n", rep, b"", None, False, True))
    for _ in range(4):
        rep = gen_report(rng, small=True)
        cases.append(("glued", b"junk without newline", rep, b"", None, False, True))
    # 4. no report at all: garbage, empty, spawn failure
    for _ in range(20 if ctx.quick() else 400):
        junk = bytes(rng.randrange(256) for _ in range(rng.choice([0, 1, 5, 40, 300])))
        cases.append(("garbage", junk, None, b"", None, False, False))
    cases.append(("empty", b"", None, b"", None, False, False))
    import errno
    for code in (errno.EAGAIN, errno.ENOMEM, errno.EMFILE, errno.ENFILE, errno.ENOENT, errno.EACCES, errno.EPERM,
                 errno.ENOEXEC, errno.E2BIG):
        cases.append(("spawn-fail", b"", None, b"", None, code, False))

    # 5. reports of a child whose stderr is not UTF-8 (names arrive as latin-1 / arbitrary bytes)
    raw_reports = {}
    for _ in range(6 if ctx.quick() else 60):
        nf, ne = rng.choice([0, 1, 2]), rng.choice([0, 1, 2])
        rawnames = [bytes(rng.choice([0x74, 0xe9, 0xff, 0xc3, 0x28, 0x80, 0x41]) for _ in range(rng.choice([1, 4, 9])))
                    for _ in range(nf + ne)]
        ran = rng.choice([1, 5, 40]) + nf + ne
        label = "rawnames%d" % len(raw_reports)
        raw_reports[label] = (ran, rawnames[:nf], rawnames[nf:],
                              b"%d %d %d\n" % (ran, nf, ne) + b"".join(n + b"\n" for n in rawnames))
        cases.append((label, b"", None, b"", None, False, False))

    streams = []
    for label, pre, rep, post, cut, sf, spoofed in cases:
        data = b""
        if label in raw_reports:
            data = raw_reports[label][3]
        if rep is not None:
            data = real_child_report(*rep)
            if cut is not None:
                data = data[:cut]
        streams.append(pre + data + post)

    # child side: model bytes == real bytes
    child_cases = [c[2] for c in cases if c[2] is not None and c[0] in ("full", "noise")]
    child_q = [{"op": "child_report", "ran": r[0], "fails": [[ord(ch) for ch in n] for n in r[1]],
                "errs": [[ord(ch) for ch in n] for n in r[2]]} for r in child_cases]
    queries = [{"op": "channel_parse", "stderr": list(s), "spawn_failed": bool(c[5])} for s, c in zip(streams, cases)]
    answers = ctx.driver.batch(queries + child_q)
    parse_ans, child_ans = answers[:len(queries)], answers[len(queries):]

    import string  # noqa: F401
    pyws = [c for c in range(0x110000) if chr(c).isspace()]
    for rep, ans in zip(child_cases, child_ans):
        real = real_child_report(*rep)
        ctx.count(("child", real[:200], len(real)), sample=None)
        if "error" in ans:
            ctx.drift("channel.child", "driver error %s" % ans["error"], {"report": rep})
        elif bytes(ans["bytes"]) != real:
            ctx.drift("channel.child", "SubProcess.report wrote %r..., model %r..." %
                      (real[:80], bytes(ans["bytes"])[:80]), {"report": [rep[0], rep[1][:5], rep[2][:5]]})
        elif ans["pyws"] != pyws:
            ctx.drift("channel.pyws", "str.isspace() set differs from the model's", {"python": pyws})

    for (label, pre, rep, post, cut, sf, spoofed), stream, ans in zip(cases, streams, parse_ans):
        real = real_parent(stream, spawn_error=sf, verbose=rng.choice([0, 1, 2]))
        case = {"label": label, "stderr": list(stream[:4000]), "stderr_len": len(stream), "cut": cut,
                "spawn_error": sf, "real": {k: (v if k not in ("fails", "errs") else v[:10]) for k, v in real.items()},
                "model": {k: (v if k not in ("fails", "errs") else v[:10]) for k, v in ans.items()}}
        ctx.count(stream, nontrivial=(rep is not None and (cut is not None or rep[1] or rep[2])),
                  sample={"label": label, "stderr": repr(stream[:120]), "real_kind": real["kind"]}
                  if rng.random() < 0.01 else None)
        ctx.bump(label)
        ctx.bump("real=" + real["kind"])
        # ---- monitor: the property on the real outcome
        if real["kind"] == "hang":
            ctx.violation("parent did not terminate on %s input" % label, case, signature="hang")
            continue
        if not real["done"]:
            ctx.violation("result.done not set", case, signature="not-done")
            continue
        if label in raw_reports:
            ran, rf, re_, _ = raw_reports[label]
            dec = lambda b: b.strip().decode("utf-8", "replace")  # noqa: E731
            if real["kind"] != "ok" or real["ran"] != ran or real["fails"] != [dec(n) for n in rf] \
                    or real["errs"] != [dec(n) for n in re_]:
                ctx.violation("report with names that are not UTF-8: parent recorded kind=%s ran=%r fails=%r errs=%r (%s)" % (
                    real["kind"], real["ran"], real["fails"][:3], real["errs"][:3], real["exc"]), case,
                    signature="channel:rawnames:" + real["kind"])
                continue
        elif rep is not None or sf or label in ("garbage", "empty"):
            if rep is None:
                # no report: an error must be recorded unless the garbage happens to contain a full report
                want = ("commError",) if ans.get("kind") != "ok" else None
            else:
                want = expected(pre, rep, post, cut, sf)
            bad = None
            if real["kind"] == "crash":
                bad = "an exception left the reader (%s), nothing is recorded for the layer" % real["exc"]
            elif want and want[0] == "commError" and real["kind"] != "commError":
                bad = "no error recorded for a %s child; partial data used: ran=%r fails=%r errs=%r" % (
                    label, real["ran"], real["fails"][:3], real["errs"][:3])
            elif want and want[0] == "commError" and (real["fails"] or real["errs"] or real["ran"]):
                bad = "error recorded but partial data used too: ran=%r fails=%r" % (real["ran"], real["fails"][:3])
            elif want and want[0] == "ok" and (real["kind"] != "ok" or real["ran"] != want[1]
                                               or real["fails"] != want[2] or real["errs"] != want[3]):
                bad = "recorded ran=%r fails=%r errs=%r, child reported ran=%r fails=%r errs=%r" % (
                    real["ran"], real["fails"][:3], real["errs"][:3], want[1], want[2][:3], want[3][:3])
            if bad:
                sig = "spoof-or-glued-noise" if spoofed else "channel:" + label + ":" + real["kind"]
                ctx.violation("%s: %s" % (label, bad), case, signature=sig)
                if not spoofed:
                    continue
        # ---- correspondence
        if "error" in ans:
            ctx.drift("channel.parse", "driver error %s" % ans["error"], case)
            continue
        if ans["kind"] != real["kind"]:
            ctx.drift("channel.parse", "%s: model %s, real %s (%s)" % (label, ans["kind"], real["kind"], real["exc"]), case)
        elif ans["kind"] == "ok":
            mf = [bytes(b).decode("utf-8", "replace") for b in ans["fails"]]
            me = [bytes(b).decode("utf-8", "replace") for b in ans["errs"]]
            if mf != real["fails"] or me != real["errs"] or ans["ran"] != real["ran"]:
                ctx.drift("channel.parse", "%s: model (%r,%r..) real (%r,%r..)" % (
                    label, ans["ran"], mf[:3], real["ran"], real["fails"][:3]), case)
    stdout_cases(ctx)
    spawn_failure_cases(ctx)
    slow_eof_cases(ctx)
    # real children that die at any point, at the OS level or through Python
    from harness import corr_c02
    wcases = (corr_c02.death_cases(ctx, 10 if ctx.quick() else 200) + corr_c02.stdin_cases(ctx, 2 if ctx.quick() else 30)
              + corr_c02.noisy_cases(ctx, 6 if ctx.quick() else 100))
    corr_c02.run_cases(ctx, wcases)
    # "records exactly the child's number of tests run and exactly the names": the totals and the name lists of these
    # runs against what happened (the monitor of C12)
    from harness import corr_c12
    mon12 = corr_c12.make_monitor(ctx)
    for c in wcases:
        if c.label == "child-dies" or c.obs is None or c.obs.timeout:
            continue
        bad = mon12(c)
        if bad and not bad[1].startswith("known:"):
            ctx.violation(bad[0] + " (opts %r)" % c.opts, c.replay_obj(), signature="C07:" + bad[1])


STDOUT_LINES = [b"...\rprogress of a test\n", b"  Ran 3 tests with 0 failures\n", b".\n", b"....\n", b"..\r\n", b"...\r", b"." * 72 + b" done\n",
                b"." * 200 + b"|\n", b" ...\n", b"... \n", b"\n", b"x" * 70000 + b"\n", b"\xff\xfe binary\n",
                b"." * 40 + b" " + b"." * 40 + b"!\n", b"no newline at the end", b"1 0 0\n"]


def stdout_cases(ctx):
    """whatever the child writes to stdout: the parent terminates, records the child's report, and the
    collector keeps every line that is not a keep-alive dots line (tie to Model/Sched's `childLine`)"""
    import re
    import subprocess
    import json as _json
    import os as _os
    from harness import common as _common
    rng = ctx.rng
    n = 10 if ctx.quick() else 120
    dots = re.compile(br"\.+(\r\n?|\n)")
    for i in range(n):
        collector = ["deferred", "keepalive", "immediate"][i % 3]
        lines = [rng.choice(STDOUT_LINES) for _ in range(rng.choice([1, 3, 8]))]
        if i < len(STDOUT_LINES):
            lines.append(STDOUT_LINES[i])
        if i in (0, 1, 2, 5):
            # every collector meets output that is not valid in the parent's stdout encoding (latin-1 text, a binary dump)
            lines.insert(rng.randint(0, len(lines)), rng.choice([b"\xff\xfe binary\n", b"caf\xe9 latin-1\n"]))
        # only the last line may lack its newline
        lines = [ln if ln.endswith((b"\n", b"\r")) or k == len(lines) - 1 else ln + b"\n" for k, ln in enumerate(lines)]
        data = b"".join(lines)
        case = {"collector": collector, "stdout": list(data), "stderr": list(b"3 0 0\n")}
        ctx.count(("stdout", collector, data[:300], len(data)), sample=None)
        ctx.bump("stdout:" + collector)
        try:
            pr = subprocess.run([_common.PY, _os.path.join(_common.VERIF, "harness", "channel_worker.py")],
                                input=_json.dumps(case).encode(), stdout=subprocess.PIPE, stderr=subprocess.PIPE, timeout=40)
        except subprocess.TimeoutExpired:
            ctx.violation("the parent did not terminate within 40 s on child stdout %r (collector %s)" % (data[:120], collector),
                          {"collector": collector, "stdout": list(data[:4000])}, signature="hang:stdout")
            continue
        try:
            res = _json.loads(pr.stdout.decode().strip().split("\n")[-1])
        except Exception:  # noqa: BLE001
            ctx.drift("channel.stdout", "worker failed: %s" % pr.stderr.decode()[-400:], {"case": case["collector"]})
            continue
        rep = {"collector": collector, "stdout": list(data[:4000]), "result": {k: v for k, v in res.items() if k not in ("kept", "printed")}}
        if res["exc"] or not res["done"] or res["ran"] != 3 or res["errors"]:
            ctx.violation("child stdout %r (collector %s): parent recorded ran=%r errors=%r exception=%r" % (
                data[:80], collector, res["ran"], res["errors"], res["exc"]), rep, signature="channel:stdout")
            continue
        if collector in ("deferred", "keepalive"):
            # readline() splits at \n only
            real_lines = data.split(b"\n")
            real_lines = [x + b"\n" for x in real_lines[:-1]] + ([real_lines[-1]] if real_lines[-1] else [])
            want = [list(x) for x in real_lines if not dots.fullmatch(x)]
            # the model (Channel.keptLines / isDotsLine, theorem C06_dots_exact) and the real `_is_dots`
            ans = ctx.driver.batch([{"op": "kept_lines", "stdout": list(data)}])[0]
            if "error" in ans:
                ctx.drift("channel.dots", "driver error %s" % ans["error"], rep)
            else:
                from zope.testrunner import runner as _runner
                real_flags = [_runner._is_dots(x) is not None for x in real_lines]
                if ans["dots"] != real_flags:
                    k_ = next(i_ for i_, (a, b) in enumerate(zip(ans["dots"] + [None], real_flags + [None])) if a != b)
                    ctx.drift("channel.dots", "line %r: _is_dots says %r, Channel.isDotsLine %r" % (
                        bytes(real_lines[k_])[:60] if k_ < len(real_lines) else None,
                        real_flags[k_] if k_ < len(real_flags) else None, ans["dots"][k_] if k_ < len(ans["dots"]) else None), rep)
                elif ans["kept"] != res["kept"]:
                    ctx.drift("channel.kept", "collector %s kept %d lines, Channel.keptLines %d" % (
                        collector, len(res["kept"]), len(ans["kept"])), rep)
            if res["kept"] != want:
                ctx.violation("collector %s kept %d lines of the child's output, %d are not keep-alive dots lines: "
                              "first difference %r" % (collector, len(res["kept"]), len(want),
                                                       next((bytes(a)[:60] for a, b in zip(want + [[]], res["kept"] + [[]]) if a != b), b"")),
                              rep, signature="channel:collector-lines")


def slow_eof_cases(ctx):
    """the child's report is complete but its stderr stays open for a while (a process started by the tests holds the
    inherited descriptor): the parent records exactly the report, however long that takes"""
    for hold in ((6.5,) if ctx.quick() else (6.5, 12.0, 31.0)):
        rep = (7, ["failing (m.T)", "other (m.T)"], ["erroring (m.T)"])
        data = real_child_report(*rep)
        real = real_parent(data, hold=hold, wait=hold + 20)
        case = {"label": "slow-eof", "hold": hold, "stderr": list(data), "real": real}
        ctx.count(("slow-eof", hold), nontrivial=True, sample=None)
        ctx.bump("slow-eof")
        if real["kind"] != "ok" or real["ran"] != rep[0] or real["fails"] != rep[1] or real["errs"] != rep[2]:
            ctx.violation("stderr stays open for %.1f s after a complete report (7 tests, 2 failures, 1 error): the parent "
                          "recorded kind=%s ran=%r failures=%r errors=%r" % (hold, real["kind"], real["ran"], real["fails"],
                                                                               real["errs"]), case,
                          signature="channel:slow-eof:" + real["kind"])


def spawn_failure_cases(ctx):
    """a child that cannot be started - for any errno, and however often the spawn is attempted - must leave an
    error for its layer (used by the C02 and C07 checks)"""
    import errno
    for code in (errno.EAGAIN, errno.ENOMEM, errno.EMFILE, errno.ENFILE, errno.ENOENT, errno.EACCES, errno.EPERM,
                 errno.ENOEXEC, errno.E2BIG):
        for verbose in (0, 2):
            real = real_parent(b"", spawn_error=code, verbose=verbose)
            case = {"label": "spawn-fail", "stderr": [], "stderr_len": 0, "cut": None, "spawn_error": code,
                    "real": real}
            ctx.count(("spawn-fail", code, verbose), nontrivial=True, sample=None)
            ctx.bump("spawn-fail")
            if real["kind"] != "commError" or real["ran"] or real["fails"] or real["errs"] or not real["done"]:
                ctx.violation("spawn failure (errno %s): the parent recorded kind=%s ran=%r done=%r (%s) instead of one "
                              "error for the layer" % (errno.errorcode.get(code, code), real["kind"], real["ran"],
                                                       real["done"], real["exc"]), case,
                              signature="channel:spawn-fail:" + real["kind"])


def probe_spoof(ctx):
    """D10: a noise line of three ints before the report is taken as the header."""
    data = b"1 0 0\n" + real_child_report(3, ["failing (m.T)"], [])
    r = real_parent(data)
    still = not (r["kind"] == "ok" and r["ran"] == 3 and r["fails"] == ["failing (m.T)"])
    return still, ("stderr noise line b'1 0 0' before the report is taken as the header: parent records ran=%r "
                   "failures=%r instead of ran=3 failures=['failing (m.T)']" % (r["ran"], r["fails"]))


KNOWN_PROBES = {"D10": probe_spoof}


def replay(ctx, obj):
    case = obj.get("case", {})
    if "stderr" not in case or case.get("stderr_len", 0) > 4000:
        return run(ctx)
    stream = bytes(case["stderr"])
    ans = ctx.driver.batch([{"op": "channel_parse", "stderr": list(stream), "spawn_failed": bool(case["spawn_error"])}])[0]
    real = real_parent(stream, spawn_error=case["spawn_error"])
    ctx.count(stream, sample={"stderr": repr(stream[:200]), "real": real, "model": ans})
    if real["kind"] in ("crash", "hang"):
        ctx.violation("replay: %s (%s)" % (real["kind"], real["exc"]), case)
    elif ans.get("kind") != real["kind"]:
        ctx.drift("channel.parse", "model %s real %s" % (ans.get("kind"), real["kind"]), case)
