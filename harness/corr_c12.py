"""C12 — reported counts and failure lists equal what actually happened."""
from harness import corr_world as cw
from harness import truth
from harness import worlds

PROP = "C12"
LEAN_MODULE = "Ztr.Props.C12Whole"
LEAN_DEPS = ["Ztr.Props.C12"]
THEOREMS = ['Ztr.Result.C12_step', 'Ztr.Result.C12_counts', 'Ztr.Result.C12_tests_run', 'Ztr.Runner.C12_summary',
            'Ztr.Runner.C12_summary_truth', 'Ztr.Runner.C12_process_counts', 'Ztr.Runner.C12_totals_truth',
            'Ztr.Runner.C12_D4_witness', 'Ztr.Runner.C12_D5_witness']
RULE = ("worlds with every outcome kind incl. several events from one test, failing subtests, unexpected successes, "
        "countTestCases() = 3 tests, layer setUp/tearDown failures and import errors; verbosity 0-3, --repeat, "
        "in-process / resumed / -j N. The 'Ran ..' lines, the 'Total:' line and the 'Tests with failures/errors' lists "
        "are parsed from the real output and compared with the truth computed from the trace. Non-trivial = at least "
        "one bad outcome; distinct by (world, options)")
ASSUMPTIONS = ["the truth is computed from the world's own trace and the unittest protocol (Model/Proto), not from runner counters"]
TRUSTED = ["CPython unittest 3.12.1 callback protocol (Model/Proto)"]
KINDS = ("tstart", "tend", "lsu", "ltd")


def make_monitor(ctx):
    def monitor(c):
        w = c.world
        ops = cw.test_ops(ctx, w)
        parsed = worlds.parse_output(c.obs.stdout)
        parent, children = cw.real_processes(c)
        nimp = sum(1 for m in w["modules"].values() if m.get("importError"))
        reps = c.opts.get("repeat", 1)
        # ---- per-layer summaries: multiset of (ran, fail, err + import errors, skip) per layer iteration
        want = []
        per_proc = []
        for key, evs in [(None, parent)] + sorted(children.items(), key=lambda kv: kv[0][1]):
            runs = truth.layer_runs(c, evs, ops)
            per_proc.append((key, runs))
            for li, ws in runs:
                want.append((sum(x["ran"] for x in ws), sum(x["fail"] for x in ws),
                             sum(x["err"] for x in ws) + nimp, sum(x["skip"] for x in ws)))
        got = [s for s in parsed["summaries"] if s != (0, 0, nimp, 0)]
        want_nz = [s for s in want if s != (0, 0, nimp, 0)]
        if sorted(got) != sorted(want_nz):
            return ("per-layer summaries %r differ from what happened %r" % (sorted(got), sorted(want_nz)), "C12:summary")
        # ---- totals
        layer_failures = sum(1 for evs in [parent] + list(children.values()) for e in evs
                             if (e[0] == "lsu" and not e[2]) or (e[0] == "ltd" and e[2] == "raise"))
        t_ran = sum(s[0] for s in want)
        t_fail = sum(s[1] for s in want)
        t_err = sum(s[2] - nimp for s in want) + layer_failures + nimp
        t_skip = sum(s[3] for s in want)
        total = parsed["total"]
        if total is None:
            return None
        diffs = {}
        for name, g, t in zip(("tests", "failures", "errors", "skipped"), total, (t_ran, t_fail, t_err, t_skip)):
            if g != t:
                diffs[name] = (g, t)
        if diffs:
            sig = "C12:totals:" + ",".join(sorted(diffs))
            child_skips = sum(s[3] for (key, runs) in per_proc if key is not None
                              for s in [(0, 0, 0, sum(x["skip"] for x in ws)) for li, ws in runs])
            last_iter = 0
            for key, runs in per_proc:
                byl = {}
                for li, ws in runs:
                    byl[li] = sum(x["ran"] for x in ws)      # the last iteration of the layer wins
                last_iter += sum(byl.values())
            known = True
            for name, (g, t) in diffs.items():
                if name == "skipped" and g == t - child_skips and child_skips:
                    continue                                   # D4
                if name == "tests" and reps > 1 and g == last_iter:
                    continue                                   # D5
                known = False
            if known:
                sig = "known:" + "+".join(sorted(("D4-skipped-in-children" if n == "skipped" else "D5-repeat-total")
                                                 for n in diffs))
            return ("Total line %r differs from what happened (tests, failures, errors, skipped) = %r"
                    % (total, (t_ran, t_fail, t_err, t_skip)), sig)
        # ---- name lists (printed with -v)
        if c.opts.get("verbose", 0) >= 1:
            tests = {t["id"]: t for t in w["tests"]}
            want_f, want_e = [], []
            for key, runs_evs in [(None, parent)] + list(children.items()):
                for win in truth.windows(runs_evs):
                    calls = truth.calls_of(win, ops)
                    want_f += [win.tid] * sum(1 for x in calls if x in truth.BAD_FAIL)
                    want_e += [win.tid] * sum(1 for x in calls if x in truth.BAD_ERR)
            import re
            got_f = sorted(int(m.group(1)) for n in parsed["fail_names"] for m in [re.match(r"t(\d+) ", n)] if m)
            got_e = sorted(int(m.group(1)) for n in parsed["err_names"] for m in [re.match(r"t(\d+) ", n)] if m)
            if got_f != sorted(want_f):
                return ("'Tests with failures' lists tests %r, failures happened in %r" % (got_f, sorted(want_f)), "C12:fail-names")
            if got_e != sorted(want_e):
                return ("'Tests with errors' lists tests %r, errors happened in %r" % (got_e, sorted(want_e)), "C12:err-names")
            # the listed names are the tests' own names (blanks and tabs inside them included)
            for n in parsed["fail_names"] + parsed["err_names"]:
                m = re.match(r"t(\d+) ", n)
                if m and tests[int(m.group(1))].get("label") in WS_LABELS:
                    t_ = tests[int(m.group(1))]
                    want_name = "t%d (%s) %s" % (t_["id"], t_.get("module", "wtests"), t_["label"])
                    if n != want_name and not n.startswith(want_name + " (") and not n.startswith(want_name + " ["):
                        return ("the lists name %r, the test is called %r" % (n, want_name), "C12:name-altered")
            n_layer_names = sum(1 for n in parsed["err_names"] if n.startswith("Layer:"))
            if n_layer_names != layer_failures:
                return ("%d layer failures listed, %d happened" % (n_layer_names, layer_failures), "C12:layer-names")
        return None
    return monitor


def totals_vs_model(ctx, c):
    """the "Total:" line against `Model/Whole.wholeTotals` (parent and children composed in Lean); the harness's own
    composition of the per-process answers must agree with it"""
    parsed = worlds.parse_output(c.obs.stdout)
    if parsed["total"] is None:
        return
    q = dict(worlds.model_query(c.world, c.opts, c.groups, import_errors=c.import_errors), op="whole", lost=[])
    ans = ctx.driver.batch([q])[0]
    if "error" in ans:
        ctx.drift("runner.totals", "driver error %s" % ans["error"], c.replay_obj())
        return
    lean_totals = tuple(ans["totals"])
    ran, nf, ne, sk, failed = cw.model_totals(c)
    if lean_totals != (ran, nf, ne, sk) or bool(ans["failed"]) != bool(failed):
        ctx.drift("runner.whole", "Model/Whole gives totals %r failed=%r, the composition of the per-process models %r failed=%r"
                  % (lean_totals, ans["failed"], (ran, nf, ne, sk), failed), c.replay_obj())
        return
    if parsed["total"] != lean_totals:
        ctx.drift("runner.totals", "Total line %r, model %r (opts %r)" % (parsed["total"], lean_totals, c.opts),
                  c.replay_obj())
    elif (c.obs.exit == 1) != bool(ans["failed"]) and c.obs.exit in (0, 1):
        ctx.drift("runner.verdict", "exit status %r, Model/Whole says failed=%r" % (c.obs.exit, ans["failed"]), c.replay_obj())


def make_flaky(rng, w, o):
    """a test that fails only the first time it runs in a process, under --repeat"""
    bad = [t for t in w["tests"] if any(p.get("exc") in ("fail", "error") for p in cw.parts_of(t))
           and not t["expectFail"]]
    if not bad:
        return
    t = rng.choice(bad)
    for p in cw.parts_of(t):
        if p.get("exc") in ("fail", "error"):
            p["once"] = True
    o["repeat"] = rng.choice([2, 3])


ODD_LABELS = ["\udc80sur", "caf\u00e9", "\U0001f600", "tab\there", "caf\udce9.txt"]


def directed_names(ctx):
    """failing tests whose names only 'backslashreplace' can write (a lone surrogate, as os.fsdecode produces for a
    file name that is not UTF-8), reported by layer subprocesses (-j N, and resumed after a layer that cannot be torn
    down) as well as in-process"""
    rng = ctx.rng
    cases = []
    for i in range(4 if ctx.quick() else 40):
        w = worlds.gen_world(rng, n_layers=rng.choice([2, 3]), tests_per_layer=(1, 3), p_fault=0.0, p_write=0.0,
                             kinds=["fail", "error", "pass", "subFail"])
        lab = ODD_LABELS[i % len(ODD_LABELS)] if i >= 2 else ODD_LABELS[0]
        for t in w["tests"]:
            t.pop("rebind", None)
            t.pop("ownstream", None)
            t["label"] = lab
        o = {"verbose": rng.choice([1, 2])}
        if i % 2 == 0:
            o["processes"] = 2
        else:
            real = [l for l in w["layers"] if l["kind"] != "unit"]
            if real:
                real[0]["tearDown"] = True
                real[0]["tearDownFaults"] = [[0, 2]]      # NotImplementedError: later layers run in subprocesses
        cases.append(cw.Case(w, o, "directed:odd-names"))
    return cases


def directed_skips(ctx):
    """runs of consecutive decorator-skipped tests (unittest 3.12.1 calls addSkip and stopTest for them without
    startTest): each counts as one test run and one skipped"""
    rng = ctx.rng
    cases = []
    for i in range(4 if ctx.quick() else 40):
        w = worlds.gen_world(rng, n_layers=rng.choice([1, 2]), tests_per_layer=(3, 6),
                             kinds=["skipDeco", "skipDeco", "skipDeco", "pass", "fail"], p_fault=0.0, p_write=0.0)
        cases.append(cw.Case(w, {"verbose": rng.choice([1, 2]), "processes": rng.choice([1, 1, 2])}, "directed:skip-runs"))
    return cases


def directed_teardown(ctx):
    """a tear-down pass in which one layer's tearDown raises and a base of it cannot be torn down at all
    (NotImplementedError), followed by another layer: the raised error is an error of the run, the rest is resumed"""
    rng = ctx.rng
    cases = []
    for i in range(3 if ctx.quick() else 30):
        w = worlds.gen_world(rng, n_layers=3, tests_per_layer=(1, 2), kinds=["pass", "pass", "fail"], p_fault=0.0, p_write=0.0)
        real = [k for k, l in enumerate(w["layers"]) if l["kind"] != "unit"]
        if len(real) < 3:
            continue
        a, b, c_ = real[:3]
        for k, (nm, bases) in zip((a, b, c_), (("A", []), ("B", [a]), ("C", []))):
            l = w["layers"][k]
            l.update({"kind": "instance", "name": nm, "module": "wlayers", "bases": bases, "setUp": True, "tearDown": True,
                      "setUpRaises": [], "tearDownFaults": [], "excStyle": None})
            l.pop("falsy", None)
        w["layers"][a]["tearDownFaults"] = [[999999, 2]]
        w["layers"][b]["tearDownFaults"] = [[999999, 1]]
        # B (and with it A) must have tests, and so must C
        lay_of = {t["layer"] for t in w["tests"]}
        if b not in lay_of or c_ not in lay_of:
            continue
        cases.append(cw.Case(w, {"verbose": rng.choice([1, 2])}, "directed:teardown-pass"))
    return cases


# (... and names that do not fit on a line of the terminal: they are listed in full, too)
WS_LABELS = ["tab\there", "two  spaces", "a \t b", "a_descriptive_name_that_says_what_is_tested_" * 3, "p" * 200 + " end"]


def directed_whitespace(ctx):
    """failing tests whose names contain tabs and runs of blanks, reported by layer subprocesses: the lists name the
    tests as they are called"""
    rng = ctx.rng
    cases = []
    for i in range(5 if ctx.quick() else 30):
        w = worlds.gen_world(rng, n_layers=rng.choice([2, 3]), tests_per_layer=(1, 3), p_fault=0.0, p_write=0.0,
                             kinds=["fail", "error", "pass", "subFail"])
        for t in w["tests"]:
            for k in ("rebind", "ownstream", "doctest"):
                t.pop(k, None)
            t["label"] = WS_LABELS[(i + t["id"]) % len(WS_LABELS)]
        cases.append(cw.Case(w, {"verbose": rng.choice([1, 2]), "processes": rng.choice([1, 2, 3])}, "directed:whitespace-names"))
    return cases


def gen_cases(ctx):
    rng = ctx.rng
    n = 80 if ctx.quick() else 2000
    cases = directed_names(ctx) + directed_skips(ctx) + directed_teardown(ctx) + directed_whitespace(ctx)
    for i in range(n):
        w = worlds.gen_world(rng, tests_per_layer=(0, 4), p_fault=0.15, p_write=0.0, import_errors=True)
        if rng.random() < 0.3:
            for l in w["layers"]:
                l["setUpRaises"] = []
        o = worlds.gen_opts(rng, allow=("repeat", "j", "verbose", "stop"))
        if rng.random() < 0.2:
            make_flaky(rng, w, o)
        r = rng.random()
        if r < 0.1 and not o.get("stopOnError"):
            # the totals do not depend on where the process happens to stand when a layer is handed to a subprocess
            worlds.shape_relpath_chdir(rng, w, o)
        elif r < 0.25:
            # ... nor on layer names that contain one another (each subprocess runs its own layer only)
            worlds.shape_substring_names(rng, w, o, parallel=rng.random() < 0.5)
        elif r < 0.4 and w["tests"]:
            # ... nor on what a layer subprocess writes to its real stderr while it shuts down (after its report)
            for t_ in rng.sample(w["tests"], min(2, len(w["tests"]))):
                if not t_.get("doctest"):
                    t_["setUp"]["atexit_fd2"] = rng.choice(["fixture-server: stopped\n", "bye\n", "2 leaked handles\nclosing\n"])
            o["processes"] = rng.choice([2, 3])
        cases.append(cw.Case(w, o))
    return cases


def run(ctx):
    cw.standard_check(ctx, cw.corpus_cases(PROP) + gen_cases(ctx), PROP, KINDS, "runner.counts", make_monitor(ctx), extra=totals_vs_model)
    # the numbers of a layer run in a subprocess are the ones its report carries, however late its stderr closes
    from harness import corr_channel
    corr_channel.slow_eof_cases(ctx)


def _tiny_world(kind):
    import random
    rng = random.Random(7)
    w = worlds.gen_world(rng, n_layers=2, tests_per_layer=(2, 2), kinds=[kind], p_fault=0.0, p_write=0.0)
    for t in w["tests"]:
        t["count"] = 1
    return w


def _run_tiny(ctx, w, o, tag):
    import os
    import shutil
    d = os.path.join(ctx.tmp, "probe-" + tag)
    worlds.materialize(w, d)
    obs = worlds.run_real(w, o, d)
    shutil.rmtree(d, ignore_errors=True)
    return worlds.parse_output(obs.stdout)


def probe_d4(ctx):
    w = _tiny_world("skipBody")
    seq = _run_tiny(ctx, w, {"verbose": 1}, "d4a")
    par = _run_tiny(ctx, w, {"verbose": 1, "processes": 2}, "d4b")
    still = bool(seq["total"] and par["total"] and seq["total"][3] > 0 and par["total"][3] < seq["total"][3])
    return still, ("skipped tests of layers run in subprocesses are not transferred to the parent: sequential run "
                   "'Total: %r', -j2 run 'Total: %r'" % (seq["total"], par["total"]))


def probe_d5(ctx):
    w = _tiny_world("pass")
    one = _run_tiny(ctx, w, {"verbose": 1}, "d5a")
    two = _run_tiny(ctx, w, {"verbose": 1, "repeat": 2}, "d5b")
    still = bool(one["total"] and two["total"] and two["total"][0] == one["total"][0] and len(two["summaries"]) == 2 * len(one["summaries"]))
    return still, ("--repeat 2 executes every test twice (%d summaries) but reports 'Total: %r' like a single run %r"
                   % (len(two["summaries"]), two["total"], one["total"]))


KNOWN_PROBES = {"D4": probe_d4, "D5": probe_d5}


def replay(ctx, obj):
    c = cw.replay_case(obj)
    if c is None:
        return run(ctx)
    cw.standard_check(ctx, [c], PROP, KINDS, "runner.counts", make_monitor(ctx), extra=totals_vs_model)
