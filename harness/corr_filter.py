"""C08 — correspondence of Model/Filter with zope.testrunner.filter.build_filtering_func,
monitor = the property's sentence evaluated on the real results."""
import itertools
import re

PROP = "C08"
LEAN_MODULE = "Ztr.Props.C08"
LEAN_DEPS = ["Ztr.Props.C14", "Ztr.Props.C08Options"]
THEOREMS = [
    "Ztr.Discovery.C14_import_gate", "Ztr.Discovery.C14_module_name_has_package",
    "Ztr.Filter.C08_spec", "Ztr.Filter.C08_spec_guarded", "Ztr.Filter.C08_perm", "Ztr.Filter.C08_dup",
    "Ztr.Filter.C08_neg_never_selects", "Ztr.Filter.C08_pos_monotone",
    "Ztr.Filter.C08_pos_monotone_corner", "Ztr.Filter.C08_D13_witness",
    # the glue in front of the predicate (Model/Options = get_options' handling of -t, -m and the positional filters)
    "Ztr.Options.C08O_test_given", "Ztr.Options.C08O_module_given", "Ztr.Options.C08O_test_kept",
    "Ztr.Options.C08O_D37_witness",
]
RULE = ("pattern lists over an alphabet of positive/negated/anchored/alternation/empty patterns: all lists "
        "up to a length bound (all orders, duplicates) x a fixed name pool, plus random longer lists; a case is "
        "(pattern list, name); non-trivial = at least one pattern; distinct by (patterns, name)")
ASSUMPTIONS = [
    "the regex engine is abstract in the model: the harness evaluates re.search for every (pattern, name) and "
    "hands the model the match matrix",
    "the implicit pattern added for only-negated lists is probed black-box through a never-matching '!'-pattern",
]
TRUSTED = ["CPython re module (match matrix supplied by the harness)"]

ALPHABET = ["a", "b", "^a", "b$", "a|c", "", ".", "x", "!a", "!b", "!^a", "!", "!.", "!c$", "t.*1", "!t.*2"]
NAMES = ["", "\n", "a", "b", "ab", "ba", "c", "abc", "x.y", "test_1 (m.T)", "test_2 (m.T)",
         "zope.testrunner.layer.UnitTests", "\n\n", " "]
NEVER = "!(?!)"   # a negated pattern that matches nothing
# patterns whose meaning depends on being compiled on their own: inline flags, group numbers and names,
# verbose mode, look-around, anchors inside alternations
# a negated pattern is ONE '!' followed by a regular expression - which may itself begin with a literal '!'
FEATURES = ["!!a", "!!", "!!!b", "(?i)A", "(?i)b", "(a)\\1", "(b)\\1", "(?P<n>b)(?P=n)", "!(?i)C", "!(b)\\1", "(?x) a b", "a(?=b)",
            "(?s)^.$", "(?m)^b$", "!(?i)^AB$", "a|", "(?i)", "!(?P<n>a)(?P=n)"]
FEATURE_NAMES = ["A", "B", "aa", "bb", "AB", "Ab", "C", "a b", "a\nb", "TEST_1 (m.T)", "a", "x!a", "!!b"]


def _rand_regex(rng, depth=2):
    """a random regular expression over a tiny alphabet: every construct whose meaning depends on where the pattern
    begins and ends or on being compiled on its own (anchors at either end, top-level alternation, groups, classes,
    quantifiers, escapes of the line end) - so that no particular shape has to be thought of in advance"""
    def atom(d):
        r = rng.random()
        if r < 0.45 or d == 0:
            return rng.choice(["a", "b", "c", "a", "b", ".", "\\n", " ", "[ab]", "[^a]", "\\.", "\\$", "!"])
        if r < 0.65:
            return "(" + alt(d - 1) + ")"
        if r < 0.8:
            return "(?:" + alt(d - 1) + ")"
        return atom(0) + rng.choice(["*", "+", "?", "{2}"])

    def seq(d):
        return "".join(atom(d) for _ in range(rng.choice([1, 1, 2, 2, 3])))

    def alt(d):
        return "|".join(seq(d) for _ in range(rng.choice([1, 1, 1, 2, 3])))
    body = alt(depth)
    if rng.random() < 0.5:
        body = rng.choice(["^", "^", "\\A"]) + body
    if rng.random() < 0.5:
        body = body + rng.choice(["$", "$", "\\Z"])
    if rng.random() < 0.15:
        body = rng.choice(["(?i)", "(?s)", "(?m)"]) + body
    if rng.random() < 0.3:
        body = "!" + body
    return body


def _rand_name(rng):
    return "".join(rng.choice("aabbc \n.!$A") for _ in range(rng.choice([0, 1, 1, 2, 2, 3, 4])))


def grammar_cases(ctx):
    n = 6000 if ctx.quick() else 120000
    out = []
    while len(out) < n:
        ps = [_rand_regex(ctx.rng) for _ in range(ctx.rng.choice([1, 1, 2, 3]))]
        try:
            for p in ps:
                re.compile(p[1:] if p.startswith("!") else p)
        except re.error:
            continue
        for _ in range(4):
            out.append((ps, _rand_name(ctx.rng)))
    return out


def _real(patterns, name):
    from zope.testrunner.filter import build_filtering_func
    try:
        return bool(build_filtering_func(patterns)(name))
    except Exception as e:  # noqa: BLE001 - every pattern here is valid on its own
        return "raised %s: %s" % (type(e).__name__, e)


def _query(patterns, name, implicit):
    neg = [p.startswith("!") for p in patterns]
    mat = [re.compile(p[1:] if p.startswith("!") else p).search(name) is not None for p in patterns]
    return {"op": "filter", "neg": neg, "match": mat, "dot": implicit}


def _statement(patterns, name):
    """The property's sentence."""
    pos = [p for p in patterns if not p.startswith("!")]
    neg = [p[1:] for p in patterns if p.startswith("!")]
    pos_hit = any(re.compile(p).search(name) for p in pos)
    neg_hit = any(re.compile(p).search(name) for p in neg)
    only_neg = (not pos) and bool(neg)
    return (pos_hit or only_neg) and not neg_hit


def cases(ctx):
    maxlen = 2 if ctx.quick() else 3
    alphabet = ALPHABET if not ctx.quick() else ALPHABET[:12]
    for k in range(0, maxlen + 1):
        for ps in itertools.product(alphabet, repeat=k):
            for n in NAMES:
                yield list(ps), n
    nrand = 3000 if ctx.quick() else 60000
    for _ in range(nrand):
        k = ctx.rng.randint(1, 7)
        ps = [ctx.rng.choice(ALPHABET) for _ in range(k)]
        yield ps, ctx.rng.choice(NAMES)
    # regex features: every ordered pair (and, thorough, triple) of feature patterns and plain ones
    mixed = FEATURES + ["a", "b", "!a", "C", "!B"]
    for k in ((1, 2) if ctx.quick() else (1, 2, 3)):
        for ps in itertools.product(mixed, repeat=k):
            if k == 3 and ctx.rng.random() > 0.25:
                continue
            for n in FEATURE_NAMES:
                yield list(ps), n


def run(ctx):
    todo = list(cases(ctx)) + grammar_cases(ctx)
    implicit = {n: _real([NEVER], n) for n in set(NAMES + FEATURE_NAMES + [n for _, n in todo])}
    ctx.exhaustive = False
    queries = [_query(ps, n, implicit[n]) for ps, n in todo]
    answers = ctx.driver.batch(queries)
    for (ps, n), ans in zip(todo, answers):
        real = _real(ps, n)
        ctx.count((tuple(ps), n), nontrivial=bool(ps),
                  sample={"patterns": ps, "name": n, "real": real, "model": ans.get("accept")})
        ctx.bump("len=%d" % len(ps))
        ctx.bump("accepted" if real else "rejected")
        if not any(not p.startswith("!") for p in ps) and ps:
            ctx.bump("only-negated")
        if any(p in FEATURES for p in ps):
            ctx.bump("regex-features")
        case = {"patterns": ps, "name": n, "real": real, "model": ans}
        if "error" in ans:
            ctx.drift("filter", "driver error %s" % ans["error"], case)
            continue
        want = _statement(ps, n)
        if real != want:
            ctx.violation("build_filtering_func(%r)(%r) = %r but the property selects %r" % (ps, n, real, want),
                          case, signature="statement:%s" % ("only-neg-dot" if not implicit[n] else "other"))
        elif real != ans["accept"]:
            ctx.drift("filter", "model accept=%r real=%r for %r on %r" % (ans["accept"], real, ps, n), case)
    # algebraic consequences on the real function (order, duplicates) for a sample
    for ps, n in todo[:: max(1, len(todo) // 2000)]:
        if len(ps) >= 2:
            sh = list(ps)
            ctx.rng.shuffle(sh)
            if _real(sh, n) != _real(ps, n):
                ctx.violation("pattern order matters: %r vs %r on %r" % (ps, sh, n),
                              {"patterns": ps, "shuffled": sh, "name": n}, signature="order")
            if _real(ps + [ps[0]], n) != _real(ps, n):
                ctx.violation("duplicate matters: %r on %r" % (ps, n), {"patterns": ps, "name": n},
                              signature="dup")
    cli_defaults(ctx)
    cli_filters(ctx)
    # the uses of the predicate: --module patterns see the imported dotted name (package included) of every
    # discovered file, and only accepted modules are imported (Model/Discovery.importedModules, C14_import_gate)
    from harness import corr_discovery
    corr_discovery.run(ctx, n=40 if ctx.quick() else 400, module_gate_only=True)
    # --test patterns inside tests_from_suite (with every level option) and --layer patterns inside Filter.global_setup
    from harness import corr_suites
    orig_violation = ctx.violation

    def violation(desc, replay, signature=None):
        # D14 (--all vs levels above sys.maxsize) is a finding of C09's level clause, not of the filter predicate
        if signature != "all-level-above-maxsize":
            orig_violation(desc, replay, signature)
    ctx.violation = violation
    try:
        corr_suites.run_suites(ctx)
        corr_suites.run_layers(ctx)
    finally:
        ctx.violation = orig_violation


def cli_defaults(ctx):
    """C08_cli_default: an absent option is ['.'], legacy positionals are appended."""
    from zope.testrunner.options import get_options
    import contextlib
    import io
    for args, field, want in [
        (["t"], "test", ["."]), (["t"], "module", ["."]),
        (["t", "-t", "!x"], "test", ["!x"]),
        (["t", "mod", "tst"], "module", ["mod"]), (["t", "mod", "tst"], "test", ["tst"]),
        (["t", "-m", "a", "mod"], "module", ["a", "mod"]),
        (["t", ".", "tst"], "module", ["."]),
        # the empty pattern is a pattern (it matches every name): given as a positional filter it neither vanishes nor
        # takes the other positional filter with it
        (["t", "", "tst"], "test", ["tst"]), (["t", "", "tst"], "module", [""]), (["t", "mod", ""], "test", [""]),
        (["t", "-m", "a", "", "tst"], "module", ["a", ""]), (["t", "-m", "a", "", "tst"], "test", ["tst"]),
    ]:
        with contextlib.redirect_stdout(io.StringIO()):
            o = get_options(list(args), [])
        got = getattr(o, field)
        ctx.count(("cli", tuple(args), field), sample=None)
        if list(got) != want:
            ctx.violation("get_options(%r).%s = %r, expected %r" % (args, field, got, want),
                          {"args": args, "field": field, "got": list(got)}, signature="cli-default")


def cli_filters(ctx):
    """Model/Options against the real get_options: every combination of 0-2 -t values, 0-2 -m values and 0-2 positional
    filters over a small pattern alphabet (incl. '.', the empty pattern, patterns that look like options are left
    out); monitor = the patterns handed to the predicates are the ones given, ['.'] only when none was"""
    import contextlib
    import io
    import itertools
    from zope.testrunner.options import get_options
    alphabet = [".", "", "foo", "!bar", " x "]
    code = {p: i for i, p in enumerate(alphabet)}
    cases = []
    for nt in (0, 1, 2):
        for nm in (0, 1, 2):
            for npos in (0, 1, 2):
                for ts in itertools.product(alphabet, repeat=nt):
                    for ms in itertools.product(alphabet, repeat=nm):
                        for pos in itertools.product(alphabet, repeat=npos):
                            cases.append((list(ts), list(ms), list(pos)))
    if ctx.quick():
        cases = [c for k, c in enumerate(cases) if k % 7 == ctx.seed % 7 or len(c[0]) + len(c[1]) <= 1]
    queries = []
    for ts, ms, pos in cases:
        queries.append({"op": "cli_filters", "test": [code[p] for p in ts], "module": [code[p] for p in ms],
                        "legacyModule": code[pos[0]] if len(pos) > 0 else None,
                        "legacyTest": code[pos[1]] if len(pos) > 1 else None})
    answers = ctx.driver.batch(queries)
    for (ts, ms, pos), ans in zip(cases, answers):
        args = ["prog"]
        for p in ts:
            args += ["-t", p]
        for p in ms:
            args += ["--module=%s" % p]
        args += ["--"] + pos if pos else []
        with contextlib.redirect_stdout(io.StringIO()):
            o = get_options(list(args), [])
        case = {"args": args, "real": {"test": list(o.test), "module": list(o.module)}, "model": ans}
        ctx.count(("cli-filters", tuple(args)), nontrivial=bool(pos), sample=None)
        ctx.bump("cli-filters")
        want_t = ts + pos[1:2] or ["."]
        want_m = ms + [p for p in pos[:1] if p != "."] or ["."]
        if list(o.test) != want_t or list(o.module) != want_m:
            ctx.violation("get_options(%r): test patterns %r (given %r), module patterns %r (given %r)" % (
                args, list(o.test), want_t, list(o.module), want_m), case, signature="cli-default")
            continue
        if "error" in ans:
            ctx.drift("options.filters", "driver error %s" % ans["error"], case)
        elif [alphabet[i] for i in ans["test"]] != list(o.test) or [alphabet[i] for i in ans["module"]] != list(o.module):
            ctx.drift("options.filters", "model %r real %r for %r" % (ans, case["real"], args), case)


def replay(ctx, obj):
    case = obj.get("case", {})
    ps, n = case.get("patterns"), case.get("name")
    if ps is None:
        return run(ctx)
    implicit = _real([NEVER], n)
    ans = ctx.driver.batch([_query(ps, n, implicit)])[0]
    real = _real(ps, n)
    ctx.count((tuple(ps), n), sample={"patterns": ps, "name": n, "real": real, "model": ans})
    if real != _statement(ps, n):
        ctx.violation("build_filtering_func(%r)(%r) = %r but the property selects %r"
                      % (ps, n, real, _statement(ps, n)), case)
    elif real != ans.get("accept"):
        ctx.drift("filter", "model differs", case)
