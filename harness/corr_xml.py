"""C17 — correspondence of Model/Xml with the real XMLOutputFormattingWrapper (driven with synthetic
result events for real TestCase / subtest / StartUpFailure objects) and with ElementTree's serializer
(char-for-char); monitor = strict parsers + the statement's clauses on the parsed files."""
import os
import re
import shutil
import traceback
import types
import unittest
import xml.dom.minidom
from xml.etree import ElementTree

from harness import corr_world as cw
from harness import worlds

PROP = "C17"
LEAN_MODULE = "Ztr.Props.C17Doc"
LEAN_DEPS = ["Ztr.Props.C17", "Ztr.Props.C17File"]
THEOREMS = ["Ztr.Xml.sanitize_xmlChar", "Ztr.Xml.escAttr_ok", "Ztr.Xml.escText_ok", "Ztr.Xml.C17_wellformed",
            "Ztr.Xml.C17_each_once", "Ztr.Xml.C17_counts", "Ztr.Xml.C17_subtest_name", "Ztr.Xml.C17_doctest_name",
            "Ztr.XmlFile.C17F_no_separator", "Ztr.XmlFile.C17F_decode", "Ztr.XmlFile.C17F_injective",
            "Ztr.XmlFile.C17F_naive_collides"]
RULE = ("histories of 1-12 result events (success / failure / error) for unittest cases, failing subtests and "
        "StartUpFailures over several classes, with exception messages and subtest descriptions drawn from every class "
        "of code point (C0/C1 controls, NUL, lone surrogates, non-characters U+FFFE/FFFF, astral, '<&>\"\\'', ']]>', CR/LF/"
        "TAB, 100 kB, multi-line); every written file is parsed with ElementTree and minidom (expat, strict) and "
        "compared char-for-char with the model's rendering; plus end-to-end --xml runs of generated worlds. "
        "Non-trivial = a history with a failure/error carrying a non-ASCII or special character; distinct by history")
ASSUMPTIONS = ["class and module names are identifiers (they become file names)",
               "doctest / manuel cases are not modelled (manuel is not installed); DocTestCase is exercised by the unit-level parsers only",
               "the well-formedness theorem is about the subset of the XML grammar the serializer emits"]
TRUSTED = ["xml.etree.ElementTree serializer (modelled; validated char-for-char)", "expat (strict parser used as oracle)"]

SPECIAL = ["\x00", "\x01", "\x08", "\x0b", "\x0c", "\x1f", "\x7f", "\x85", "\ud800", "\udfff", "￾", "￿", "�",
           "<", ">", "&", "\"", "'", "]]>", "\r", "\n", "\t", "\r\n", "é", "漢", "\U0001f600", "\U0010ffff", "&amp;", "&#0;",
           "<![CDATA[", "-->", " ", "a" * 50, ".", "ratio=1.5", "host='a.org'", "1.2.3"]


def gen_text(rng, long=False):
    n = rng.choice([0, 1, 2, 3, 6])
    parts = [rng.choice(SPECIAL + ["word", "line one", "x"]) for _ in range(n)]
    s = "".join(parts)
    if long:
        s += "z" * 100000
    return s


def make_test(mod, cls, meth):
    # "Outer.Inner": a test class nested in another class (its __name__ is Inner, its own dotted path Outer.Inner)
    c = type(cls.rsplit(".", 1)[-1], (unittest.TestCase,), {"__module__": mod, meth: lambda self: None})
    c.__qualname__ = cls
    return c(meth)


class Exc(Exception):
    pass


_TB_SEQ = [0]


def make_tb(exc, special, idx):
    """raise `exc` from a frame whose file name, function name and source line carry the text `special` (a test
    directory, a generated function, a string literal on the raising line): the traceback the wrapper formats"""
    import linecache
    ns = {}
    exec(compile("def f(e):\n    raise e\n", "<xml-harness>", "exec"), ns)
    f = ns["f"]
    # (a source file is decoded text and a path is encodable: no lone surrogates in those two)
    enc = special.encode("utf-8", "ignore").decode("utf-8")
    _TB_SEQ[0] += 1
    fname = "/no/such/dir%s/test_%d_%d.py" % (enc.replace("\x00", ""), idx, _TB_SEQ[0])
    f.__code__ = f.__code__.replace(co_filename=fname, co_name="test_" + special)
    lines = ["def f(e):\n", "    raise e  # '%s'\n" % enc.replace("\n", " ").replace("\r", " ")]
    linecache.cache[fname] = (sum(map(len, lines)), None, lines, fname)
    try:
        f(exc)
    except Exc as e:
        return e.__traceback__.tb_next
    finally:
        pass


RAW_NAMES = {}     # case index -> the names of the report files as they are on disk


def run_direct(ctx, hist, idx):
    """hist: list of events {obj: [...], kind, msg}.  Returns (files dict name->text, error)"""
    from zope.testrunner.find import StartUpFailure
    from zope.testrunner.formatter import XMLOutputFormattingWrapper
    import pathlib
    d = os.path.join(ctx.tmp, "xml%05d" % idx)
    os.makedirs(d)

    class Delegate:
        def __getattr__(self, name):
            return lambda *a, **k: None
    w = XMLOutputFormattingWrapper(Delegate(), folder=pathlib.Path(d))
    model_events = []
    err = None
    try:
        for ev in hist:
            o = ev["obj"]
            if o[0] == "unit":
                test = make_test(o[1], o[2], o[3])
            elif o[0] == "sub":
                parent = make_test(o[1], o[2], o[3])
                test = unittest.case._SubTest(parent, o[4], {})
            elif o[0] == "doctest":
                import doctest
                dt = doctest.DocTestParser().get_doctest(">>> 1\n1\n", {}, o[1], "some_file.py", 0)
                test = doctest.DocTestCase(dt)
            else:
                test = StartUpFailure(types.SimpleNamespace(post_mortem=False), o[1], None)
            exc_info = None
            message = etype = text = ""
            if ev["kind"] != "success":
                exc = Exc(ev["msg"])
                tb = make_tb(exc, ev["tb"], idx) if ev.get("tb") is not None else None
                exc_info = (Exc, exc, tb)
                message = str(exc).split("\n")[0]
                etype = str(Exc)
                text = str(exc) + "\n\n" + "".join(traceback.format_tb(tb))
            if ev["kind"] == "success":
                w.test_success(test, 0)
            elif ev["kind"] == "failure":
                w.test_failure(test, 0, exc_info)
            else:
                w.test_error(test, 0, exc_info)
            mo = list(o)
            if o[0] == "sub":
                # the description unittest appends to the parent's id
                mo = ["sub", o[1], o[2], o[3], test._subDescription()]
            model_events.append({"obj": [mo[0]] + [[ord(c) for c in x] for x in mo[1:]], "kind": ev["kind"],
                                 "time": [ord(c) for c in "0"], "message": [ord(c) for c in message],
                                 "etype": [ord(c) for c in etype], "text": [ord(c) for c in text]})
        w.writeXMLReports()
    except Exception as e:  # noqa: BLE001
        err = "%s: %s" % (type(e).__name__, e)
    files = {}
    rd = os.path.join(d, "testreports")
    RAW_NAMES[idx] = sorted(os.listdir(rd)) if os.path.isdir(rd) else []
    if os.path.isdir(rd):
        for f in os.listdir(rd):
            # (a suite name is its file's name; a path separator or a '%' in it is written %XX)
            files[f[:-4].replace("%2F", "/").replace("%25", "%")] = open(os.path.join(rd, f), "rb").read().decode("utf-8")
    shutil.rmtree(d, ignore_errors=True)
    return files, err, model_events


def statement_check(hist, files):
    """the property's clauses on the parsed files"""
    parsed = {}
    for name, text in files.items():
        try:
            xml.dom.minidom.parseString(text.encode("utf-8"))
            root = ElementTree.fromstring(text)
        except Exception as e:  # noqa: BLE001
            return "report %s.xml is not well-formed: %s" % (name, e), "C17:malformed"
        parsed[name] = root
        cases = root.findall("testcase")
        if int(root.get("tests")) != len(cases):
            return "suite %s: tests=%s but %d testcase elements" % (name, root.get("tests"), len(cases)), "C17:counts"
        if int(root.get("errors")) != len(root.findall("testcase/error")):
            return "suite %s: errors=%s but %d error elements" % (name, root.get("errors"),
                                                                  len(root.findall("testcase/error"))), "C17:counts"
        if int(root.get("failures")) != len(root.findall("testcase/failure")):
            return "suite %s: failures attribute does not match the failure elements" % name, "C17:counts"
    # every event appears once, under its own class and name
    want = {}
    for ev in hist:
        o = ev["obj"]
        if o[0] == "startup":
            suite, cls, name = o[1], o[1], "Startup"
        elif o[0] == "doctest":
            # a doctest belongs to what it documents: everything before the last dot of its name
            suite = cls = o[1].rpartition(".")[0]
            name = o[1].rpartition(".")[2]
        else:
            suite = cls = o[1] + "." + o[2]
            name = o[3]
        want.setdefault(suite, []).append((cls, name, ev["kind"], o[0]))
    for suite, evs in want.items():
        root = parsed.get(suite)
        if root is None:
            return "no report file for suite %s (files: %r)" % (suite, sorted(files)), "C17:missing-suite"
        cases = root.findall("testcase")
        if len(cases) != len(evs):
            return "suite %s has %d testcase elements for %d events" % (suite, len(cases), len(evs)), "C17:each-once"
        for c, (cls, name, kind, okind) in zip(cases, evs):
            if c.get("classname") != cls:
                return "testcase classname %r, the test's class is %r" % (c.get("classname"), cls), "C17:own-name"
            got = c.get("name")
            if okind == "sub":
                if not got.startswith(name + " "):
                    return "subtest filed under name %r, its test method is %r" % (got, name), "C17:own-name"
            elif got != name:
                return "testcase name %r, the test is %r" % (got, name), "C17:own-name"
            kids = [k.tag for k in c]
            if kids != ([] if kind == "success" else [kind]):
                return "testcase for a %s event has children %r" % (kind, kids), "C17:child"
    extra = set(parsed) - set(want)
    if extra:
        return "unexpected report files %r" % sorted(extra), "C17:extra-suite"
    return None


def gen_hist(rng):
    mods = ["pkg.mod", "other"]
    hist = []
    for _ in range(rng.randint(1, 12)):
        m = rng.choice(mods)
        c = rng.choice(["TestA", "TestB", "TestA", "TestB", "Test\u0391", "Test\u0392", "Test_A", "Test A", "Test-A", "Outer.TestA", "Outer.Inner"])
        meth = rng.choice(["test_one", "test_two", "test_x"])
        k = rng.random()
        kind = rng.choice(["success", "failure", "error"])
        msg = gen_text(rng, long=rng.random() < 0.02)
        tbtext = gen_text(rng) if rng.random() < 0.5 else None
        if k < 0.12:
            hist.append({"obj": ["startup", rng.choice(["broken.mod", "pkg.bad"])], "kind": "error", "msg": msg})
        elif k < 0.22:
            # a doctest: filed under everything before the last dot of its name
            hist.append({"obj": ["doctest", rng.choice(["pkg.mod.func", "pkg.mod.Class.method", "other.helper", "pkg.mod",
                                                         "toplevel", "pkg.mod.TestA", "pkg.mod.a/b.c", "pkg.mod.100%.x", "pkg.mod.a%2Fb.c"])], "kind": kind, "msg": msg})
        elif k < 0.45:
            if kind == "success":
                kind = "failure"
            hist.append({"obj": ["sub", m, c, meth, gen_text(rng)], "kind": kind, "msg": msg})
        else:
            hist.append({"obj": ["unit", m, c, meth], "kind": kind, "msg": msg})
        if kind != "success":
            hist[-1]["tb"] = tbtext
    return hist


def run(ctx):
    rng = ctx.rng
    n = 150 if ctx.quick() else 5000
    hists = [gen_hist(rng) for _ in range(n)]
    # every special character alone in a failure message and in a subtest description
    for sp in SPECIAL:
        hists.append([{"obj": ["unit", "m", "T", "test_a"], "kind": "failure", "msg": sp}])
        hists.append([{"obj": ["sub", "m", "T", "test_a", sp], "kind": "error", "msg": "x" + sp + "y"}])
        # ... and in the traceback (file name, function name, source line of the raising frame)
        hists.append([{"obj": ["unit", "m", "T", "test_a"], "kind": ("failure", "error")[len(hists) % 2], "msg": "plain",
                       "tb": sp}])
    reals = [run_direct(ctx, h, i) for i, h in enumerate(hists)]
    queries = []
    for (files, err, mev) in reals:
        host = stamp = ""
        for text in files.values():
            m = re.search(r'hostname="([^"]*)"', text)
            host = m.group(1) if m else ""
            m = re.search(r'timestamp="([^"]*)"', text)
            stamp = m.group(1) if m else ""
        queries.append({"op": "xml", "events": mev, "host": [ord(c) for c in host], "stamp": [ord(c) for c in stamp],
                        "suite_time": [ord(c) for c in "0.0"]})
    answers = ctx.driver.batch(queries)
    for case_idx, (hist, (files, err, mev), ans) in enumerate(zip(hists, reals, answers)):
        case = {"history": [{"obj": e["obj"], "kind": e["kind"], "msg": e["msg"][:200].encode("unicode_escape").decode(),
                             "tb": None if e.get("tb") is None else e["tb"].encode("unicode_escape").decode()}
                            for e in hist], "error": err, "files": {k: v[:1500] for k, v in files.items()}}
        special = any(any(ord(ch) > 127 or ch in "<>&\"'\r\n\t" or ord(ch) < 32 for ch in e["msg"]) for e in hist)
        ctx.count(repr(hist)[:5000], nontrivial=special and any(e["kind"] != "success" for e in hist),
                  sample={"events": len(hist), "first": case["history"][0]})
        ctx.bump("events=%d" % min(len(hist), 12))
        for e in hist:
            ctx.bump("obj:" + e["obj"][0])
        if err:
            ctx.violation("writing the XML reports raised %s" % err, case, signature="C17:raises")
            continue
        bad = statement_check(hist, files)
        if bad:
            ctx.violation(bad[0], case, signature=bad[1])
            continue
        if "error" in ans:
            ctx.drift("xml", "driver error %s" % ans["error"], case)
            continue
        model = {"".join(chr(c) for c in n_): "".join(chr(c) for c in t) for n_, t in ans["files"]}
        if set(model) != set(files):
            ctx.drift("xml.record", "model files %r, real %r" % (sorted(model), sorted(files)), case)
            continue
        # the files on disk carry the names Model/XmlFile gives the suites (one file per suite, in the reports directory)
        mstems = sorted("".join(chr(c) for c in st) + ".xml" for st in ans.get("stems", []))
        raw = RAW_NAMES.get(case_idx)
        if raw is not None and mstems != raw:
            ctx.drift("xml.filenames", "report files on disk %r, model %r" % (raw, mstems), case)
            continue
        for name in files:
            if model[name] != files[name]:
                k = next((i for i, (a, b) in enumerate(zip(model[name], files[name])) if a != b),
                         min(len(model[name]), len(files[name])))
                ctx.drift("xml.render", "file %s differs at char %d: model %r real %r" % (
                    name, k, model[name][max(0, k - 30):k + 30], files[name][max(0, k - 30):k + 30]), case)
                break
    end_to_end(ctx)


def end_to_end(ctx):
    """--xml runs of generated worlds: files well-formed, counts consistent, subtests under their class"""
    rng = ctx.rng
    cases = []
    for i in range(6 if ctx.quick() else 100):
        w = worlds.gen_world(rng, n_layers=2, tests_per_layer=(1, 4), p_fault=0.0, p_write=0.0)
        o = worlds.gen_opts(rng, allow=("repeat",))
        o["verbose"] = 1
        if i % 2 == 0:
            o["repeat"] = rng.choice([2, 3])     # every iteration's events are in the reports
        cases.append(cw.Case(w, o))
    # -x: whatever was reported before the run stopped is in the reports - every failing sub-test of the test that
    # stopped it
    for i in range(3 if ctx.quick() else 40):
        w = worlds.gen_world(rng, n_layers=2, tests_per_layer=(1, 3), kinds=["subFail2", "subFail2", "pass", "bodyAndTearDown"],
                             p_fault=0.0, p_write=0.0)
        cases.append(cw.Case(w, {"verbose": 1, "stopOnError": True}, "stop"))
    # --buffer: what failing tests wrote (terminal colours, NUL, form feed) may or may not be part of the reports -
    # they stay well-formed
    for i in range(4 if ctx.quick() else 60):
        w = worlds.gen_world(rng, n_layers=2, tests_per_layer=(1, 3), kinds=["pass", "fail", "error", "subFail2", "fail"],
                             p_fault=0.0, p_write=0.9)
        for t in w["tests"]:
            for part in cw.parts_of(t):
                if part.get("writes"):
                    part["ctrl"] = True
        cases.append(cw.Case(w, {"verbose": 1, "buffer": True}, "buffer-ctrl"))
    # several layers run in subprocesses (one after another behind a layer that cannot be torn down, or -j N):
    # every process writes the reports of its own tests into the same directory
    for i in range(6 if ctx.quick() else 100):
        w = worlds.gen_world(rng, n_layers=rng.choice([3, 4, 5]), tests_per_layer=(1, 3),
                             kinds=["pass", "pass", "fail", "error", "subFail2"], p_fault=0.0, p_write=0.0)
        o = {"verbose": 1, "processes": rng.choice([1, 1, 2, 3])}
        if o["processes"] == 1:
            non_unit = sorted([k for k, l in enumerate(w["layers"]) if l["kind"] != "unit"],
                              key=lambda k: worlds.layer_name(w, k))
            if non_unit:
                w["layers"][non_unit[0]]["tearDown"] = True
                w["layers"][non_unit[0]]["tearDownFaults"] = [[999999, 2]]
        cases.append(cw.Case(w, o, "children"))

    # a relative --xml directory names a place at the start of the run, wherever tests leave the process
    for i in range(3 if ctx.quick() else 40):
        w = worlds.gen_world(rng, n_layers=2, tests_per_layer=(1, 3), kinds=["pass", "fail"], p_fault=0.0, p_write=0.0)
        for t in w["tests"]:
            if rng.random() < 0.6:
                rng.choice([t["setUp"], t["body"], t["tearDown"]])["chdir"] = True
        cases.append(cw.Case(w, {"verbose": 1}, "relative-xml"))
    # modules that cannot be imported are reported too - also when no test runs at all
    for i in range(4 if ctx.quick() else 40):
        w = worlds.gen_world(rng, n_layers=2, tests_per_layer=(0, 2), kinds=["pass"], p_fault=0.0, p_write=0.0,
                             import_errors=True)
        if not any(m.get("importError") for m in w["modules"].values()):
            w["modules"][sorted(w["modules"])[0]]["importError"] = True
        o = {"verbose": 1}
        if i % 2 == 0:
            o["test"] = ["no test has this name"]
        cases.append(cw.Case(w, o, "import-errors"))

    def one(i_c):
        i, c = i_c
        d = os.path.join(ctx.tmp, "xw%04d" % i)
        worlds.materialize(c.world, d)
        c.opts["xml"] = "xmlout" if c.label == "relative-xml" else os.path.join(d, "xmlout")
        c.obs = worlds.run_real(c.world, c.opts, d)
        c.files = {}
        rd = os.path.join(d, "xmlout", "testreports")
        if os.path.isdir(rd):
            for f in os.listdir(rd):
                c.files[f] = open(os.path.join(rd, f), "rb").read().decode("utf-8")
        shutil.rmtree(d, ignore_errors=True)
        return c
    import concurrent.futures
    with concurrent.futures.ThreadPoolExecutor(max_workers=6) as ex:
        list(ex.map(one, enumerate(cases)))
    for c in cases:
        ctx.count(("e2e", str(c.world)[:3000]), sample=None)
        ctx.bump("end-to-end")
        case = c.replay_obj()
        # every test that ran (in whatever process) has its report
        # (skips are not recorded in the reports: only tests with a success / failure / error event count)
        ops = cw.test_ops(ctx, c.world)
        recorded = ("addSuccess", "addFailure", "addError", "addSubTest:fail", "addSubTest:error",
                    "addExpectedFailure", "addUnexpectedSuccess")
        ran = sorted({e["t"] for e in c.obs.events if e.get("ev") == "tstart"
                      and any(op in recorded for op in ops[e["t"]] if isinstance(op, str))})
        nimp = sum(1 for m in c.world["modules"].values() if m.get("importError"))
        if nimp and not c.obs.timeout:
            nerr = 0
            for text in c.files.values():
                try:
                    nerr += len(ElementTree.fromstring(text).findall("testcase/error"))
                except Exception:  # noqa: BLE001
                    pass
            if nerr < nimp:
                ctx.violation("end-to-end: %d module(s) could not be imported (the run reports them) but the XML reports "
                              "hold %d error element(s) in %r" % (nimp, nerr, sorted(c.files)), case,
                              signature="C17:import-error-not-filed")
                continue
        missing = [t for t in ran if not any(f.endswith(".T%d.xml" % t) for f in c.files)]
        if missing and not c.obs.timeout:
            ctx.violation("end-to-end: tests %r ran (%d processes) but have no report among %r" % (
                missing, len(c.obs.procs), sorted(c.files)[:8]), case, signature="C17:missing-report")
            continue
        # every result event of every start of a test is one <testcase> - once per --repeat iteration, whichever
        # process and layer loop it happened in; failure/error children as the events say
        bad_count = None
        if not c.obs.timeout and not cw.stateful(c.world) and all(t.get("count", 1) == 1 for t in c.world["tests"]):
            starts = {}
            for e in c.obs.events:
                if e.get("ev") == "tstart":
                    starts[e["t"]] = starts.get(e["t"], 0) + 1
            for t in ran:
                tops = [op for op in ops[t] if isinstance(op, str) and op in recorded]
                want_cases = starts[t] * len(tops)
                want_fail = starts[t] * sum(1 for op in tops if op in ("addFailure", "addSubTest:fail"))
                # (an unexpected success is a reported problem: filed with a failure or an error child)
                want_either = starts[t] * sum(1 for op in tops if op == "addUnexpectedSuccess")
                want_err = starts[t] * sum(1 for op in tops if op in ("addError", "addSubTest:error"))
                got_cases = got_fail = got_err = 0
                for f, text in c.files.items():
                    if f.endswith(".T%d.xml" % t):
                        try:
                            root = ElementTree.fromstring(text)
                        except Exception:  # noqa: BLE001
                            continue
                        got_cases += len(root.findall("testcase"))
                        got_fail += len(root.findall("testcase/failure"))
                        got_err += len(root.findall("testcase/error"))
                if got_cases != want_cases or got_fail < want_fail or got_err < want_err or \
                        got_fail + got_err != want_fail + want_err + want_either:
                    bad_count = ("end-to-end: test %d started %d time(s) with result events %r each, its report holds %d test "
                                 "case(s), %d failure(s), %d error(s) (expected %d, %d, %d and %d of either kind)" % (
                                     t, starts[t], tops, got_cases, got_fail, got_err, want_cases, want_fail, want_err, want_either))
                    break
        if bad_count:
            ctx.violation(bad_count, case, signature="C17:per-iteration")
            continue
        for f, text in c.files.items():
            try:
                root = ElementTree.fromstring(text)
                xml.dom.minidom.parseString(text.encode())
            except Exception as e:  # noqa: BLE001
                ctx.violation("end-to-end: %s is not well-formed: %s" % (f, e), case, signature="C17:malformed")
                break
            if "_SubTest" in f or any("_SubTest" in (tc.get("classname") or "") for tc in root.findall("testcase")):
                ctx.violation("end-to-end: a subtest is filed under unittest.case._SubTest (%s)" % f, case,
                              signature="C17:own-name")
                break
            ncase = len(root.findall("testcase"))
            if int(root.get("tests")) != ncase or int(root.get("errors")) != len(root.findall("testcase/error")) \
                    or int(root.get("failures")) != len(root.findall("testcase/failure")):
                ctx.violation("end-to-end: suite attributes of %s do not match its elements" % f, case,
                              signature="C17:counts")
                break


def replay(ctx, obj):
    run(ctx)
