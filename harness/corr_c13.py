"""C13 — buffered output is attributed correctly; std streams are always restored."""
import re

from harness import corr_world as cw
from harness import truth
from harness import worlds

PROP = "C13"
LEAN_MODULE = "Ztr.Props.C13B"
LEAN_DEPS = ["Ztr.Props.C13", "Ztr.Props.C13Streams"]
THEOREMS = ['Ztr.Result.C13_restored_between_tests', 'Ztr.Result.C13_never_replaced', 'Ztr.Result.C13_quiet_when_ok',
            'Ztr.Result.C13_attributed_test', 'Ztr.Result.C13_attribution', 'Ztr.Result.C13_failing_shown',
            # the level below: stream objects (Model/Streams), any history of runner operations and of what test code
            # does to the streams
            'Ztr.Streams.C13S_never_raises', 'Ztr.Streams.C13S_restore_clean', 'Ztr.Streams.C13S_restore_clean_flag',
            'Ztr.Streams.C13S_between_tests', 'Ztr.Streams.C13S_drained', 'Ztr.Streams.C13S_returns_content',
            'Ztr.Streams.C13S_write', 'Ztr.Streams.C13S_no_buffer', 'Ztr.Streams.C13S_D35_witness',
            'Ztr.Streams.C13S_D35b_witness', 'Ztr.Streams.C13S_D35c_witness']
RULE = ("worlds whose tests write unique tokens to sys.stdout / sys.stderr / .buffer, with and without trailing "
        "newline, in every phase; all 17 outcome kinds incl. tests producing several result events, in random "
        "sequences; --buffer on and off; layer testSetUp/testTearDown hooks record whether the std streams are the "
        "capture buffers. Non-trivial = at least one token written by a non-failing test and one by a failing test; "
        "distinct by (world, options)")
ASSUMPTIONS = ["output written by a failing test after its last result event is shown raw inside that test's window",
               "children: sys.stderr is sys.stdout (SubProcess feature); tokens are searched in both streams",
               "a line of a layer subprocess's output that consists of dots only is a keep-alive line to the parent: a test "
               "that prints such a line loses it under -j N (KNOWN-FINDING D38); the generators write tokens"]
TRUSTED = ["CPython unittest 3.12.1 callback protocol (Model/Proto)"]
KINDS = ("tsu", "ttd", "tstart", "tend")


def make_monitor(ctx):
    def monitor(c):
        w = c.world
        ops = cw.test_ops(ctx, w)
        tests = {t["id"]: t for t in w["tests"]}
        parent, children = cw.real_processes(c)
        text = c.obs.stdout + "\n" + c.obs.stderr
        # hooks never see the capture buffers, with or without --buffer
        for pname, evs in [("parent", parent)] + [("child %r" % (k,), v) for k, v in children.items()]:
            for e in evs:
                if e[0] in ("tsu", "ttd") and not e[2]:
                    return ("%s: sys.stdout/sys.stderr are the capture buffers (or not the streams that were installed "
                            "when the layer's tests began) while layer %d's %s runs"
                            % (pname, e[1], "testSetUp" if e[0] == "tsu" else "testTearDown"), "C13:not-restored")
        # ... and no process is left with them when the run is over, however it ended
        for e in c.obs.events:
            if e.get("ev") == "exit" and any(e.get("cap") or []):
                return ("when process %s ends, sys.stdout/sys.stderr are still the runner's capture streams %r"
                        % ("(parent)" if e["pid"] == c.obs.parent_pid else "(layer subprocess)", e["cap"]),
                        "C13:left-installed")
        if not c.opts.get("buffer"):
            # without --buffer nothing is captured: whatever a test writes (passing or not) is in the output of the run
            # (judged for runs of one process: a layer subprocess's stderr is the report channel)
            if len(c.obs.procs) == 1 and not c.obs.timeout and not c.opts.get("post_mortem"):
                for win in truth.windows(parent):
                    t = tests[win.tid]
                    plist = {"setUp": t["setUp"], "body": t["body"], "tearDown": t["tearDown"]}
                    for ph in win.phases:
                        key_ = ph[0] if isinstance(ph, (list, tuple)) else ph
                        part = plist.get(key_)
                        if part is None and key_ == "sub" and ph[1] < len(t["subs"]):
                            part = t["subs"][ph[1]]
                        if part is None and key_ == "cleanup" and ph[1] < len(t["cleanups"]):
                            part = t["cleanups"][ph[1]]
                        for to_err, tok in (part or {}).get("writes", []):
                            if "TOK%dK" % tok not in text:
                                return ("without --buffer: output TOK%dK of test t%d (%s, phase %s) is missing from the output "
                                        "of the run" % (tok, win.tid, t["kind"], key_), "C13:swallowed-without-buffer")
            return None
        if c.opts.get("post_mortem"):
            # (-D runs the tests through test.debug(): no per-test windows in the trace; these worlds have no failing
            # test, so nothing any test writes may reach the output)
            for t in w["tests"]:
                for part in [t["setUp"], t["body"], t["tearDown"]] + t["subs"] + t["cleanups"]:
                    for to_err, tok in part["writes"]:
                        if "TOK%dK" % tok in text:
                            return ("output TOK%dK of the %s test t%d appears in the runner's output (--buffer with -D)"
                                    % (tok, t["kind"], t["id"]), "C13:leak")
            return None
        # which tokens were written at all (phase executed), and is their test failing?
        executed = {}
        for evs in [parent] + list(children.values()):
            for win in truth.windows(evs):
                executed.setdefault(win.tid, []).append(win)
        for tid, wins in executed.items():
            t = tests[tid]
            calls = [o for o in ops[tid] if isinstance(o, str)]
            failing = any(x in truth.BAD_FAIL or x in truth.BAD_ERR for x in calls)
            parts = [("setUp", t["setUp"])] + [("sub", p) for p in t["subs"]] + [("body", t["body"]),
                    ("tearDown", t["tearDown"])] + [("cleanup", p) for p in t["cleanups"]]
            ran_phases = [tuple(p) if isinstance(p, list) else p for win in wins for p in win.phases]
            for k, (name, part) in enumerate(parts):
                for to_err, tok in part["writes"]:
                    token = "TOK%dK" % tok
                    shown = token in text
                    # did this part run?
                    idx = {"setUp": ["setUp"], "body": ["body"], "tearDown": ["tearDown"]}.get(name)
                    if name == "sub":
                        idx = ["sub", [p for n_, p in parts if n_ == "sub"].index(part)]
                    if name == "cleanup":
                        idx = ["cleanup", [p for n_, p in parts if n_ == "cleanup"].index(part)]
                    ran = any(list(p) == idx for win in wins for p in win.phases)
                    if not ran:
                        continue
                    if not failing and shown:
                        return ("output %s of the %s test t%d (phase %s) appears in the runner's output"
                                % (token, t["kind"], tid, name), "C13:leak")
                    if failing and not shown:
                        return ("output %s of the failing test t%d (%s, phase %s) is not shown"
                                % (token, tid, t["kind"], name), "C13:lost")
        # attribution: a token inside a report block must belong to the test of that block
        blocks = re.split(r"\n(?=(?:Failure|Error) in test )", c.obs.stdout)
        for b in blocks:
            m = re.match(r"(?:Failure|Error) in test t(\d+) ", b)
            if not m:
                continue
            owner = int(m.group(1))
            # the report ends at the next test's start; captured output sits in Stdout:/Stderr: sections
            for sec in re.findall(r"(?:Stdout|Stderr):\n(.*?)(?:\n\n|\Z)", b, re.S):
                for tok in re.findall(r"TOK(\d+)K", sec):
                    tok = int(tok)
                    own = [w_[1] for part in [tests[owner]["setUp"], tests[owner]["body"], tests[owner]["tearDown"]]
                           + tests[owner]["subs"] + tests[owner]["cleanups"] for w_ in part["writes"]]
                    if tok not in own:
                        return ("token TOK%dK is shown in the report of t%d but was written by another test" % (tok, owner),
                                "C13:misattributed")
        return None
    return monitor


def tokens_vs_model(ctx, c):
    """the set of tokens that reach the output (raw or inside a report) must be the model's"""
    if not c.opts.get("buffer"):
        return
    shown = set()
    for m in [c.parent_model] + list(c.child_models.values()):
        for e in m["trace"]:
            if e[0] == "leak":
                shown.add(e[2])
            elif e[0] == "report":
                shown.update(e[3])
    text = c.obs.stdout + c.obs.stderr
    real = {int(x) for x in re.findall(r"TOK(\d+)K", text)}
    if real != shown:
        ctx.drift("runner.streams.tokens", "tokens shown by the real run %r, by the model %r" % (
            sorted(real ^ shown), "symmetric difference"), c.replay_obj())


def gen_cases(ctx):
    rng = ctx.rng
    n = 80 if ctx.quick() else 2000
    cases = []
    for i in range(n):
        w = worlds.gen_world(rng, tests_per_layer=(1, 4), p_fault=0.0, p_write=0.6)
        for l in w["layers"]:
            if l["kind"] != "unit" and rng.random() < 0.6:
                l["testSetUp"] = l["testTearDown"] = True
            if l["kind"] != "unit" and l["setUp"] and l["tearDown"] and rng.random() < 0.3:
                # a layer that installs its own std streams while it is set up: "the std streams" its hooks must see
                # are those, whichever layers ran before it
                l["swapStreams"] = True
        o = worlds.gen_opts(rng, allow=("verbose", "repeat", "j"))
        o["buffer"] = rng.random() < 0.8
        if i % 10 == 7:
            # reports besides the console output (--xml) are no reason to capture anything: without --buffer the
            # standard streams stay what they are and every test's output appears
            o["buffer"] = False
            o["xml"] = "xml-reports"
        if rng.random() < 0.35:
            # the usual terminal: a strict UTF-8 sys.stdout (and a sys.stderr that escapes) - the captured bytes need
            # not be decodable (tests write through .buffer)
            o["_env"] = {"PYTHONIOENCODING": "utf-8"}
            tok = [max([w_[1] for t_ in w["tests"] for p_ in cw.parts_of(t_) for w_ in p_["writes"]] + [0]) + 1]
            for t in w["tests"]:
                if "\udc80" in (t.get("label") or ""):
                    t.pop("label")
                if not t.get("doctest") and not t.get("ownstream") and rng.random() < 0.4:
                    part = rng.choice([t["setUp"], t["body"]])
                    part["writes"] = part["writes"] + [[False, tok[0]]]
                    part["rawbytes"] = True
                    tok[0] += 1
        if o["buffer"] and rng.random() < 0.3:
            # tests of code that embeds the runner: after writing something they run the runner in-process (--buffer too)
            # on a tree of their own, then go on
            for t in w["tests"]:
                if not t.get("doctest") and not t.get("ownstream") and not t.get("rebind") and rng.random() < 0.35:
                    t["body"]["nested"] = True
        if rng.random() < 0.25:
            o["xml"] = "xmlout"         # the XML wrapper hands the captured output on to the formatter
        if rng.random() < 0.3:
            o["color"] = True           # the colourising formatter has its own way of printing the captured output
            if rng.random() < 0.5:
                o.setdefault("decor", []).append(["--progress"])
        cases.append(cw.Case(w, o))
    # --buffer together with -D/--post-mortem: as long as nothing fails no debugger is entered, and what passing,
    # skipped and expected-failure tests write stays out of the output
    for i in range(4 if ctx.quick() else 60):
        w = worlds.gen_world(rng, n_layers=rng.choice([1, 2]), tests_per_layer=(1, 3), kinds=["pass", "pass", "skipBody"],
                             p_fault=0.0, p_write=0.8)
        for t in w["tests"]:
            t.pop("doctest", None)
            t.pop("rebind", None)
            t.pop("ownstream", None)
        cases.append(cw.Case(w, {"verbose": rng.choice([0, 1]), "buffer": True, "post_mortem": True, "_stdin": "c\n" * 5},
                             "buffer+post-mortem"))
    # tests that replace both std streams and go wrong before putting them back: the next test's layer hooks see the
    # real streams all the same
    from harness import corr_c04
    for c in corr_c04.leak_cases(ctx, 4 if ctx.quick() else 60):
        for l in c.world["layers"]:
            if l["kind"] != "unit":
                l["testSetUp"] = l["testTearDown"] = True
        cases.append(c)
    return cases


def run(ctx):
    # the capture code as a state machine over stream objects: real TestResult methods against Model/Streams
    from harness import corr_streams
    corr_streams.run_streams(ctx)
    cw.standard_check(ctx, cw.corpus_cases(PROP) + gen_cases(ctx), PROP, KINDS, "runner.streams", make_monitor(ctx), extra=tokens_vs_model)


def probe_d38(ctx):
    """a failing test whose output contains a line made of dots only, in a layer run by a -j N subprocess"""
    import os
    import random
    import shutil
    rng = random.Random(38)
    w = worlds.gen_world(rng, n_layers=2, tests_per_layer=(1, 1), kinds=["fail"], p_fault=0.0, p_write=0.0)
    for t in w["tests"]:
        for k in ("doctest", "rebind", "ownstream", "label"):
            t.pop(k, None)
        for p_ in cw.parts_of(t):
            p_.pop("close", None)
        t["body"]["stdout_text"] = "DOTS-BEFORE\n....\nDOTS-AFTER\n"
    d = os.path.join(ctx.tmp, "probe_d38")
    worlds.materialize(w, d)
    seq = worlds.run_real(w, {"verbose": 1, "buffer": True}, d)
    par = worlds.run_real(w, {"verbose": 1, "buffer": True, "processes": 2}, d)
    shutil.rmtree(d, ignore_errors=True)
    shown_seq = "DOTS-BEFORE\n....\nDOTS-AFTER" in seq.stdout
    shown_par = "DOTS-BEFORE\n....\nDOTS-AFTER" in par.stdout
    return (shown_seq and not shown_par and "DOTS-BEFORE" in par.stdout), (
        "--buffer -j 2: a line consisting of dots only in the output of a failing test is missing from its report (the "
        "parent's collectors take it for a keep-alive line); the sequential run shows it")


KNOWN_PROBES = {"D38": probe_d38}


def replay(ctx, obj):
    c = cw.replay_case(obj)
    if c is None:
        return run(ctx)
    cw.standard_check(ctx, [c], PROP, KINDS, "runner.streams", make_monitor(ctx), extra=tokens_vs_model)
